// Extracts the table of supported message numbers from the working tree of rtcm-rs
// (rows of the `message!(...)` invocation in src/msg/message.rs), so the workload
// follows the code and never hard-codes the count.
use std::{env, fs, path::PathBuf};

fn main() {
    let repo = env::var("RTCM_REPO").unwrap_or_else(|_| "/repo".to_string());
    let path = format!("{}/src/msg/message.rs", repo);
    println!("cargo:rerun-if-changed={}", path);
    println!("cargo:rerun-if-env-changed=RTCM_REPO");
    let src = fs::read_to_string(&path).expect("read message.rs");
    let mut nums: Vec<u16> = Vec::new();
    // rows look like:    "msg1001": Msg1001(msg1001) = 1001,
    let start = src.rfind("message!(").expect("message!( invocation");
    for line in src[start..].lines() {
        let l = line.trim();
        if l.starts_with("\"msg") {
            if let Some(eq) = l.rfind('=') {
                let n: String = l[eq + 1..].chars().filter(|c| c.is_ascii_digit()).collect();
                if let Ok(n) = n.parse::<u16>() {
                    nums.push(n);
                }
            }
        }
    }
    assert!(!nums.is_empty(), "no message rows found");
    let out = PathBuf::from(env::var("OUT_DIR").unwrap()).join("msg_table.rs");
    let body = format!(
        "pub const MSG_NUMBERS: [u16; {}] = {:?};\n",
        nums.len(),
        nums
    );
    fs::write(out, body).unwrap();
}
