//! Fixed, seed-independent corner scenarios run before the random exploration
//! of every stream property (DESIGN §12.4).

use crate::refmodel::make_frame;
use crate::stream::{c04_pattern_ok, Prop};
use crate::trace::{C04Target, Segment, StreamTrace};

pub struct Piece {
    pub label: String,
    pub kind: &'static str,
    pub bytes: Vec<u8>,
    pub intact: bool,
    pub c04: Option<(String, Vec<u32>)>,
}

pub fn piece(label: &str, kind: &'static str, bytes: Vec<u8>, intact: bool) -> Piece {
    Piece { label: label.to_string(), kind, bytes, intact, c04: None }
}

pub fn frame_piece(l: usize, reserved: u8, fill: u8) -> Piece {
    let payload: Vec<u8> = (0..l).map(|i| fill.wrapping_add((i as u8).wrapping_mul(31))).collect();
    piece(&format!("foreign:L={},r={}", l, reserved), "foreign", make_frame(reserved, &payload), true)
}

/// valid frame of a supported message number (1005, 19-byte payload, zero body)
pub fn frame_1005() -> Piece {
    let mut p = vec![0u8; 19];
    p[0] = 0x3E;
    p[1] = 0xD0;
    piece("foreign:1005zero", "foreign", make_frame(0, &p), true)
}

pub fn damaged(mut p: Piece, class: &str, bits: &[u32]) -> Piece {
    assert!(c04_pattern_ok(class, bits, p.bytes.len()), "directed C04 pattern outside its class");
    for b in bits {
        p.bytes[*b as usize / 8] ^= 0x80 >> (*b % 8);
    }
    p.intact = false;
    p.label = format!("{}+{}", p.label, class);
    p.c04 = Some((class.to_string(), bits.to_vec()));
    p
}

fn get_bits(p: &[u8], at: usize, n: usize) -> u64 {
    let mut v = 0u64;
    for i in 0..n {
        let b = at + i;
        v = (v << 1) | ((p[b / 8] >> (7 - b % 8)) & 1) as u64;
    }
    v
}

fn set_bits(p: &mut [u8], at: usize, n: usize, v: u64) {
    for i in 0..n {
        let b = at + i;
        let bit = ((v >> (n - 1 - i)) & 1) as u8;
        p[b / 8] = (p[b / 8] & !(0x80 >> (b % 8))) | (bit << (7 - b % 8));
    }
}

/// A family of MSM frames made from one real encoder frame A: B has another satellite mask and
/// an empty signal mask (decodes to Corrupt), C has B's satellite mask and A's signal and cell
/// masks. Alone each has one decoding; a decoder that memoised the mask expansion with broken
/// invalidation would decode C differently after A and B.
fn msm_family(msg: u16, seed: u64) -> Option<Vec<Piece>> {
    use crate::workload::{gen_frame, GenSpec};
    let mut b = rtcm_rs::prelude::MessageBuilder::new();
    let spec = GenSpec { msg, gen_seed: seed, p_len_max: 0.0, p_field_max: 0.0, force: Vec::new() };
    let a = gen_frame(&mut b, &spec)?;
    let n = a.len();
    let p: Vec<u8> = a[3..n - 3].to_vec();
    if p.len() * 8 < 169 + 8 {
        return None;
    }
    let s1 = get_bits(&p, 73, 64);
    let s2 = s1.rotate_left(1);
    if s2 == s1 || s1 == 0 {
        return None;
    }
    let mut pb = p.clone();
    set_bits(&mut pb, 73, 64, s2);
    set_bits(&mut pb, 137, 32, 0);
    let mut pc = p.clone();
    set_bits(&mut pc, 73, 64, s2);
    let mk = |j: usize, pl: &[u8]| piece(&format!("foreign:family{}of:lib:{}", j, msg), "foreign", make_frame(0, pl), true);
    Some(vec![mk(0, &p), mk(1, &pb), mk(2, &pc), mk(3, &p), mk(4, &pc)])
}

pub fn build(prop: Prop, name: &str, pieces: Vec<Piece>, cuts: Vec<usize>, restarts: Vec<usize>, variant: u8, strategy: &str) -> StreamTrace {
    let mut t = StreamTrace::empty(prop.id());
    t.origin = format!("directed:{}", name);
    t.strategy = strategy.to_string();
    t.rx_variant = variant;
    for p in pieces {
        if p.bytes.is_empty() {
            continue;
        }
        let start = t.stream.len();
        t.stream.extend_from_slice(&p.bytes);
        t.segments.push(Segment { label: p.label.clone(), kind: p.kind.to_string(), start, len: p.bytes.len(), intact: p.intact });
        if let Some((class, bits)) = p.c04 {
            t.c04.push(C04Target { off: start, frame_len: p.bytes.len(), class, bits });
        }
    }
    t.cuts = cuts;
    t.restarts = restarts;
    t.sim_ns = t.stream.len() as u64 * (10_000_000_000u64 / t.baud as u64);
    t.normalise();
    t
}

fn every_byte(n: usize) -> Vec<usize> {
    (1..n).collect()
}

pub fn scenarios(prop: Prop) -> Vec<StreamTrace> {
    let mut out: Vec<StreamTrace> = Vec::new();
    // rover V5 (datagram receiver, in-place buffer) is not a streaming caller: not used for C06
    let vmax: u8 = if prop == Prop::C06 { 4 } else { 5 };
    let mut idx = 0u64;
    let mut add = |mut t: StreamTrace, out: &mut Vec<StreamTrace>| {
        t.run = idx;
        idx += 1;
        out.push(t);
    };
    let total = |ps: &[Piece]| -> usize { ps.iter().map(|p| p.bytes.len()).sum() };

    // 1. smallest and largest payloads, alone / with suffixes, every rover variant
    for l in [0usize, 1, 2, 3, 1022, 1023] {
        for v in 1..=vmax {
            add(build(prop, &format!("L{}_alone", l), vec![frame_piece(l, 0, 0x11)], vec![], vec![], v, "one_shot"), &mut out);
            add(
                build(prop, &format!("L{}_then_byte", l), vec![frame_piece(l, 0, 0x11), piece("noise:one", "noise", vec![0x00], false)], vec![], vec![], v, "one_shot"),
                &mut out,
            );
            add(
                build(prop, &format!("L{}_then_two_bytes", l), vec![frame_piece(l, 0, 0x11), piece("noise:two", "noise", vec![0x3E, 0xD0], false)], vec![], vec![], v, "one_shot"),
                &mut out,
            );
            add(build(prop, &format!("L{}_then_frame", l), vec![frame_piece(l, 0, 0x11), frame_1005()], vec![], vec![], v, "one_shot"), &mut out);
            let ps = vec![frame_piece(l, 0, 0x22), frame_piece(0, 0, 0), frame_piece(1, 5, 0x7F)];
            let n = total(&ps);
            if n <= 2100 {
                add(build(prop, &format!("L{}_L0_L1_byte_by_byte", l), ps, every_byte(n), vec![], v, "every_byte"), &mut out);
            }
        }
    }
    // 2. three frames byte by byte; also cut exactly at / around every frame end
    for v in 1..=vmax {
        let ps = vec![frame_1005(), frame_piece(40, 0, 0x33), frame_piece(7, 63, 0xD3)];
        let n = total(&ps);
        add(build(prop, "three_frames_byte_by_byte", ps, every_byte(n), vec![], v, "every_byte"), &mut out);
        let ps = vec![frame_1005(), frame_piece(40, 0, 0x33), frame_piece(7, 63, 0xD3)];
        let e1 = ps[0].bytes.len();
        let e2 = e1 + ps[1].bytes.len();
        add(build(prop, "three_frames_cut_around_ends", ps, vec![1, 2, 3, e1 - 3, e1 - 1, e1, e1 + 1, e1 + 2, e2 - 2, e2, e2 + 1], vec![], v, "aimed"), &mut out);
    }
    // 3. stray 0xD3 bytes and garbage before a frame
    for v in 1..=vmax {
        add(
            build(prop, "stray_d3_before_frame", vec![piece("noise:lone_d3", "noise", vec![0xD3], false), frame_1005()], vec![1], vec![], v, "aimed"),
            &mut out,
        );
        add(
            build(
                prop,
                "garbage_with_d3_before_frame",
                vec![piece("noise:d3heavy", "noise", vec![0x00, 0xD3, 0x00, 0x02, 0xD3, 0xD3, 0x41], false), frame_1005(), frame_piece(0, 0, 0)],
                vec![3, 5, 8],
                vec![],
                v,
                "aimed",
            ),
            &mut out,
        );
    }
    // 4. lone header announcing 1023 bytes at the end (blocks the tail), and in the middle
    for v in 1..=vmax {
        add(
            build(prop, "long_header_at_end", vec![frame_1005(), piece("noise:long_header", "noise", vec![0xD3, 0x03, 0xFF], false)], vec![10], vec![], v, "aimed"),
            &mut out,
        );
        add(
            build(
                prop,
                "long_header_then_frames",
                vec![piece("noise:long_header", "noise", vec![0xD3, 0x03, 0xFF], false), frame_1005(), frame_piece(2, 0, 0x3E), frame_piece(1023, 0, 0x44), frame_1005()],
                vec![2, 3, 30, 600],
                vec![],
                v,
                "aimed",
            ),
            &mut out,
        );
    }
    // 5. nested frames: valid / broken / incomplete outer
    for v in 1..=vmax {
        let inner = frame_1005().bytes;
        let mut payload = vec![0x10, 0x20];
        payload.extend_from_slice(&inner);
        payload.extend_from_slice(&[0x30, 0x40, 0x50]);
        let outer = make_frame(0, &payload);
        add(build(prop, "nested_valid_outer", vec![piece("nested:valid_outer", "nested", outer.clone(), true), frame_piece(3, 0, 1)], vec![7, 20], vec![], v, "aimed"), &mut out);
        let mut broken = outer.clone();
        let n = broken.len();
        broken[n - 1] ^= 0x01;
        add(build(prop, "nested_broken_outer", vec![piece("nested:broken_outer", "nested", broken, false), frame_piece(3, 0, 1)], vec![7, 20], vec![], v, "aimed"), &mut out);
        let mut inc = outer.clone();
        inc.truncate(n - 2);
        add(build(prop, "nested_incomplete_outer_at_end", vec![piece("nested:incomplete_outer", "nested", inc.clone(), false)], vec![7, 20], vec![], v, "aimed"), &mut out);
        add(
            build(prop, "nested_incomplete_outer_then_frame", vec![piece("nested:incomplete_outer", "nested", inc, false), frame_piece(5, 0, 9)], every_byte(n + 9), vec![], v, "every_byte"),
            &mut out,
        );
    }
    // 6. near misses in front of a good frame
    for v in 1..=vmax {
        let good = frame_1005();
        let mut crc_bit = good.bytes.clone();
        let n = crc_bit.len();
        crc_bit[n - 2] ^= 0x10;
        let mut pre = good.bytes.clone();
        pre[0] = 0xD2;
        let mut len_plus = good.bytes.clone();
        len_plus[2] += 1;
        let mut len_minus = good.bytes.clone();
        len_minus[2] -= 1;
        for (name, bytes) in [("crc_bit", crc_bit), ("preamble", pre), ("len_plus", len_plus), ("len_minus", len_minus), ("header_only", good.bytes[..3].to_vec()), ("prefix", good.bytes[..n - 1].to_vec())] {
            let ps = vec![piece(&format!("nearmiss:{}", name), "nearmiss", bytes, false), frame_1005(), frame_piece(1, 0, 0xAA)];
            let n2 = total(&ps);
            add(build(prop, &format!("nearmiss_{}_then_frames", name), ps, every_byte(n2), vec![], v, "every_byte"), &mut out);
        }
    }
    // 7. reserved bits and lengths >= 256 (mask of the two length bits in byte 1)
    for (l, res) in [(0usize, 63u8), (1, 63), (255, 1), (256, 62), (300, 63), (511, 32), (512, 31), (767, 63), (768, 1), (1023, 63), (1023, 0)] {
        let v = (l % 4) as u8 + 1;
        let ps = vec![frame_piece(l, res, 0x5C), frame_piece(2, res, 0x01)];
        let n = total(&ps);
        let e1 = ps[0].bytes.len();
        add(build(prop, &format!("reserved{}_L{}", res, l), ps, vec![1, 2, 3, e1 - 1, e1, e1 + 1, n - 1], vec![], v, "aimed"), &mut out);
    }
    // 8. C04 ground truth: one detectable fault per frame copy ("retransmission storm")
    {
        let mut storm: Vec<Piece> = Vec::new();
        let base_l = 5usize;
        let nbits = (base_l + 6) * 8;
        // every checksum bit, every reserved bit
        for b in (nbits - 24)..nbits {
            storm.push(damaged(frame_piece(base_l, 0, 0x61), "flip1", &[b as u32]));
        }
        for b in 8..14u32 {
            storm.push(damaged(frame_piece(base_l, 0, 0x61), "flip1", &[b]));
        }
        // first / last payload bit
        storm.push(damaged(frame_piece(base_l, 0, 0x61), "flip1", &[24]));
        storm.push(damaged(frame_piece(base_l, 0, 0x61), "flip1", &[(nbits - 25) as u32]));
        // pairs at distance 1, 8, 23, 24 inside / across the checksum
        for (a, b) in [(24u32, 25u32), (nbits as u32 - 24, nbits as u32 - 1), (nbits as u32 - 25, nbits as u32 - 24), (30, 38), (nbits as u32 - 24, nbits as u32 - 16)] {
            storm.push(damaged(frame_piece(base_l, 0, 0x61), "flip2", &[a, b]));
        }
        // bursts of span 24 ending at the last bit, span 2 at the start of the payload, all-ones interior
        let full: Vec<u32> = ((nbits as u32 - 24)..nbits as u32).collect();
        storm.push(damaged(frame_piece(base_l, 0, 0x61), "burst", &full));
        storm.push(damaged(frame_piece(base_l, 0, 0x61), "burst", &[24, 25]));
        storm.push(damaged(frame_piece(base_l, 0, 0x61), "burst", &[8, 9, 10, 11, 12, 13]));
        storm.push(damaged(frame_piece(base_l, 0, 0x61), "flip_odd", &[9, 40, nbits as u32 - 1]));
        // L = 0 frame: only reserved bits and checksum exist
        for b in [8u32, 13, 24, 35, 47] {
            storm.push(damaged(frame_piece(0, 0, 0), "flip1", &[b]));
        }
        storm.push(frame_piece(base_l, 0, 0x61)); // one intact copy gets through
        let n = total(&storm);
        for v in 1..=vmax {
            let ps: Vec<Piece> = storm.iter().map(|p| Piece { label: p.label.clone(), kind: p.kind, bytes: p.bytes.clone(), intact: p.intact, c04: p.c04.clone() }).collect();
            let cuts: Vec<usize> = if v % 2 == 0 { every_byte(n) } else { (1..n).step_by(7).collect() };
            add(build(prop, "c04_storm_small_frame", ps, cuts, vec![], v, "aimed"), &mut out);
        }
        // long frame: faults near the end of a 1029-byte frame
        let nb = 1029 * 8;
        let ps = vec![
            damaged(frame_piece(1023, 0, 0x13), "flip1", &[nb as u32 - 1]),
            damaged(frame_piece(1023, 0, 0x13), "flip1", &[24]),
            damaged(frame_piece(1023, 63, 0x13), "flip2", &[8, nb as u32 - 1]),
            damaged(frame_piece(1023, 0, 0x13), "burst", &[nb as u32 - 24, nb as u32 - 1]),
            frame_piece(1023, 0, 0x13),
        ];
        add(build(prop, "c04_storm_long_frame", ps, vec![1029, 2000, 2058, 3000], vec![], 1, "aimed"), &mut out);
    }
    // 10. buffers crossing the 64 KiB mark: a frame followed by a suffix such that the slice handed
    //     to the framer is 65536 + k bytes long (arithmetic in 16-bit types would wrap here)
    for l in [0usize, 1, 2, 19] {
        for k in [0usize, 1, 5, 6, 7, 8, 24, 25] {
            let v = ((l + k) % 4) as u8 + 1;
            let f = frame_piece(l, 0, 0x3C);
            let pad = 65536 + k - f.bytes.len();
            let ps = vec![f, piece("noise:zeros", "noise", vec![0u8; pad], false), frame_1005()];
            add(build(prop, &format!("buffer_64k_plus_{}_L{}", k, l), ps, vec![], vec![], v, "one_shot"), &mut out);
        }
    }
    {
        // a frame in the middle of a 128 KiB buffer, delivered in two halves
        let ps = vec![piece("noise:zeros", "noise", vec![0u8; 70_000], false), frame_1005(), frame_piece(0, 0, 0), piece("noise:zeros", "noise", vec![0u8; 61_000], false), frame_piece(1, 0, 7)];
        add(build(prop, "frames_inside_128k_buffer", ps, vec![65_536], vec![], 4, "aimed"), &mut out);
    }
    // 11. crafted checksums: 000000, ffffff, and a checksum that itself starts a candidate
    //     (d3 00 00 ..: the frame's tail + following bytes look like an L=0 frame)
    for (ti, target) in [0x000000u32, 0xFFFFFF, 0xD30000, 0xD30001, 0xD3D3D3].iter().enumerate() {
        for l in [3usize, 4, 19, 300] {
            let payload: Vec<u8> = (0..l).map(|i| (i as u8).wrapping_mul(13).wrapping_add(ti as u8)).collect();
            if let Some(f) = crate::refmodel::make_frame_with_crc(0, &payload, *target) {
                let v = ((ti + l) % 4) as u8 + 1;
                let n = f.len();
                let ps = vec![piece(&format!("foreign:L={},crc={:06x}", l, target), "foreign", f, true), frame_1005(), frame_piece(0, 0, 0)];
                add(build(prop, &format!("crafted_crc_{:06x}_L{}", target, l), ps, vec![1, n - 3, n - 2, n - 1, n, n + 1, n + 3], vec![], v, "aimed"), &mut out);
            }
        }
    }
    // 12. alignment of frames inside the buffer: a frame ENDING exactly at a power-of-two offset
    //     (and one byte before / after it), buffers whose length is a multiple of 8 .. 4096
    for k in 3..=16u32 {
        let end = 1usize << k;
        for (di, delta) in [0isize, -1, 1].iter().enumerate() {
            let f = frame_piece(if k < 5 { 0 } else { 9 }, 0, 0x47);
            let flen = f.bytes.len();
            let target_end = (end as isize + delta) as usize;
            if target_end < flen {
                continue;
            }
            let pad = target_end - flen;
            let v = ((k as usize + di) % vmax as usize) as u8 + 1;
            let mut ps = vec![];
            if pad > 0 {
                ps.push(piece("noise:zeros", "noise", vec![0u8; pad], false));
            }
            ps.push(f);
            // total buffer length: the next multiple of `end`, filled with a second frame + zeros
            let f2 = frame_piece(1, 0, 0x21);
            let used = target_end + f2.bytes.len();
            let total = ((used + end - 1) / end) * end;
            ps.push(f2);
            if total > used {
                ps.push(piece("noise:zeros", "noise", vec![0u8; total - used], false));
            }
            let cuts = if k <= 10 { vec![end / 2, end] } else { vec![end] };
            add(build(prop, &format!("frame_ends_at_2^{}{:+}", k, delta), ps, cuts, vec![], v, "aimed"), &mut out);
        }
    }
    // 13. complete candidates whose checksum position holds 00 00 00 / ff ff ff (zero-filled or
    //     erased receive buffers), alone, followed by a frame, and delivered byte by byte
    for l in [0usize, 1, 2, 5, 40] {
        for fill in [0x00u8, 0xFF] {
            let mut dead = vec![0xD3, 0x00, l as u8];
            dead.extend(std::iter::repeat(0x11u8).take(l));
            dead.extend_from_slice(&[fill, fill, fill]);
            let v = ((l + fill as usize) % vmax as usize) as u8 + 1;
            let n = dead.len();
            let ps = vec![piece(&format!("nearmiss:trailer_{:02x}:L={}", fill, l), "nearmiss", dead.clone(), false), frame_1005()];
            add(build(prop, &format!("dead_candidate_trailer_{:02x}_L{}", fill, l), ps, vec![n], vec![], v, "aimed"), &mut out);
            let ps = vec![piece(&format!("nearmiss:trailer_{:02x}:L={}", fill, l), "nearmiss", dead, false), frame_piece(0, 0, 0)];
            let total: usize = ps.iter().map(|p| p.bytes.len()).sum();
            add(build(prop, &format!("dead_candidate_trailer_{:02x}_L{}_bytewise", fill, l), ps, every_byte(total), vec![], v, "every_byte"), &mut out);
        }
    }
    // 14. MSM families (see msm_family): related frames of one type in one buffer
    for (i, msg) in [1074u16, 1077, 1084, 1097, 1127, 1071].iter().enumerate() {
        if !crate::workload::msg_numbers().contains(msg) {
            continue;
        }
        for seed in 0..6u64 {
            if let Some(ps) = msm_family(*msg, 7000 + seed * 13 + i as u64) {
                let v = ((seed as usize + i) % vmax as usize) as u8 + 1;
                let e0 = ps[0].bytes.len();
                add(build(prop, &format!("msm_family_{}", msg), ps, vec![e0, e0 + 5], vec![], v, "aimed"), &mut out);
            }
        }
    }
    // 9. receiver restarts in the middle of a frame
    for v in 1..=vmax {
        let ps = vec![frame_1005(), frame_piece(30, 0, 0x21), frame_1005(), frame_piece(0, 0, 0)];
        let e1 = ps[0].bytes.len();
        add(build(prop, "restart_mid_frame", ps, vec![5, e1 + 10, e1 + 20], vec![e1 + 10], v, "restart"), &mut out);
    }
    out
}
