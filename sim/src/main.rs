fn main() { println!("hello"); }
