//! rtcm-sim: deterministic simulation with fault injection for rtcm-rs.
//! See /verif/DESIGN.md. Exit codes: 0 property held on everything explored,
//! 1 violation (VIOLATION line printed), 2 harness error.

mod builder;
mod coverage;
mod directed;
mod judge;
mod minimize;
mod par;
mod refmodel;
mod rng;
mod rover;
mod stats;
mod stream;
mod sweep;
mod trace;
mod workload;

use builder::{directed_builder, gen_builder_trace, judge_builder, BuilderTrace};
use judge::judge_stream;
use minimize::{minimise_builder, minimise_stream, Budget};
use par::{par_run, Failure, Payload};
use serde::{Deserialize, Serialize};
use serde_json::json;
use stats::Stats;
use std::collections::BTreeMap;
use std::time::Instant;
use stream::{gen_stream, Prop};
use trace::{C04Target, StreamTrace, Violation};

fn verif_dir() -> String {
    std::env::var("RTCM_VERIF_DIR").unwrap_or_else(|_| "/verif".to_string())
}

fn repo_dir() -> String {
    std::env::var("RTCM_REPO").unwrap_or_else(|_| "/repo".to_string())
}

#[derive(Clone, Debug)]
struct Opts {
    id: String,
    tier: String,
    seed: u64,
    jobs: usize,
    runs: Option<u64>,
    profile_tag: String,
    secondary: bool,
    out_dir: String,
}

fn harness_error(msg: &str) -> ! {
    eprintln!("HARNESS-ERROR: {}", msg);
    println!("HARNESS-ERROR: {}", msg);
    std::process::exit(2);
}

// ---------------------------------------------------------------------------
// known findings
// ---------------------------------------------------------------------------

#[derive(Clone, Debug)]
struct Known {
    property: String,
    clause: String,
    needle: String,
    text: String,
}

fn load_known() -> Vec<Known> {
    let path = format!("{}/KNOWN_FINDINGS.txt", verif_dir());
    let mut out = Vec::new();
    let Ok(s) = std::fs::read_to_string(&path) else { return out };
    for line in s.lines() {
        let line = line.trim();
        if !line.starts_with("known:") {
            continue;
        }
        // known: property=C13 clause=C13.b match="substring" free text
        let rest = line["known:".len()..].trim();
        let mut property = String::new();
        let mut clause = String::new();
        let mut needle = String::new();
        let mut text = String::new();
        let mut it = rest;
        loop {
            it = it.trim_start();
            if let Some(r) = it.strip_prefix("property=") {
                let end = r.find(' ').unwrap_or(r.len());
                property = r[..end].to_string();
                it = &r[end..];
            } else if let Some(r) = it.strip_prefix("clause=") {
                let end = r.find(' ').unwrap_or(r.len());
                clause = r[..end].to_string();
                it = &r[end..];
            } else if let Some(r) = it.strip_prefix("match=\"") {
                let end = r.find('"').unwrap_or(r.len());
                needle = r[..end].to_string();
                it = &r[(end + 1).min(r.len())..];
            } else {
                text = it.to_string();
                break;
            }
        }
        if !property.is_empty() {
            out.push(Known { property, clause, needle, text });
        }
    }
    out
}

fn known_match<'a>(known: &'a [Known], v: &Violation) -> Option<usize> {
    known.iter().position(|k| k.property == v.property && (k.clause.is_empty() || k.clause == v.clause) && (k.needle.is_empty() || v.detail.contains(&k.needle)))
}

// ---------------------------------------------------------------------------
// replay files
// ---------------------------------------------------------------------------

#[derive(Serialize, Deserialize)]
struct ReplayFile {
    property: String,
    clause: String,
    detail: String,
    seed: u64,
    run: u64,
    origin: String,
    kind: String, // stream | builder
    #[serde(skip_serializing_if = "Option::is_none", default)]
    stream_minimised: Option<StreamTrace>,
    #[serde(skip_serializing_if = "Option::is_none", default)]
    stream_original: Option<StreamTrace>,
    #[serde(skip_serializing_if = "Option::is_none", default)]
    builder_minimised: Option<BuilderTrace>,
    #[serde(skip_serializing_if = "Option::is_none", default)]
    builder_original: Option<BuilderTrace>,
    minimiser_judge_calls: usize,
    how_to_replay: String,
}

fn report_failure(opts: &Opts, f: Failure) -> ! {
    let id = &opts.id;
    let mut budget = Budget::new(3000, 20);
    let (rf, v2) = match &f.payload {
        Payload::Stream(t) => {
            let prop = Prop::parse(id).unwrap();
            let min = minimise_stream(t, prop, &f.violation.clause, &mut budget);
            let v2 = judge_stream(&min, prop, None).unwrap_or_else(|| f.violation.clone());
            (
                ReplayFile {
                    property: id.clone(),
                    clause: v2.clause.clone(),
                    detail: v2.detail.clone(),
                    seed: t.seed,
                    run: t.run,
                    origin: t.origin.clone(),
                    kind: "stream".into(),
                    stream_minimised: Some(min),
                    stream_original: if t.stream.len() <= 16 * 1024 { Some(t.clone()) } else { None },
                    builder_minimised: None,
                    builder_original: None,
                    minimiser_judge_calls: budget.calls,
                    how_to_replay: format!("cd /verif && ./check {} --replay <this file>", id),
                },
                v2,
            )
        }
        Payload::Builder(t) => {
            let min = minimise_builder(t, &f.violation.clause, &mut budget);
            let v2 = judge_builder(&min, None).unwrap_or_else(|| f.violation.clone());
            (
                ReplayFile {
                    property: id.clone(),
                    clause: v2.clause.clone(),
                    detail: v2.detail.clone(),
                    seed: t.seed,
                    run: t.run,
                    origin: t.origin.clone(),
                    kind: "builder".into(),
                    stream_minimised: None,
                    stream_original: None,
                    builder_minimised: Some(min),
                    builder_original: Some(t.clone()),
                    minimiser_judge_calls: budget.calls,
                    how_to_replay: format!("cd /verif && ./check {} --replay <this file>", id),
                },
                v2,
            )
        }
    };
    let dir = format!("{}/replays", opts.out_dir);
    let _ = std::fs::create_dir_all(&dir);
    let tag = rf.origin.replace(|c: char| !c.is_ascii_alphanumeric(), "_");
    let tag = &tag[..tag.len().min(40)];
    let path = format!("{}/{}-s{}-r{}-{}.json", dir, id, rf.seed, rf.run, tag);
    if let Err(e) = std::fs::write(&path, serde_json::to_string_pretty(&rf).unwrap()) {
        harness_error(&format!("cannot write replay file {}: {}", path, e));
    }
    // the replay file must reproduce the violation in a FRESH process. If the minimised trace
    // does not (the minimiser can be misled when the code under test carries hidden state from
    // one call to the next), fall back to the original trace of the failing run.
    // replay in a fresh process: Some((clause, detail)) as reported there, None if no violation
    let fresh = |path: &str| -> Option<(String, String)> {
        let exe = std::env::current_exe().ok()?;
        let o = std::process::Command::new(exe).args(["replay", id, path]).output().ok()?;
        if o.status.code() != Some(1) {
            return None;
        }
        let text = String::from_utf8_lossy(&o.stdout).to_string();
        let line = text.lines().find(|l| l.trim_start().starts_with("clause "))?.trim_start().to_string();
        let rest = line.strip_prefix("clause ")?;
        let (c, d) = rest.split_once(": ")?;
        Some((c.to_string(), d.to_string()))
    };
    let mut rf = rf;
    let mut v2 = v2;
    let mut note = String::new();
    let want_clause = v2.clause.clone();
    let mut settle = |rf: &mut ReplayFile, v2: &mut Violation, got: (String, String)| {
        // make the file say what a fresh process reports (same clause; the wording can differ
        // when the batch process had a past that the replaying process does not have)
        if got.1 != rf.detail {
            rf.detail = got.1.clone();
            v2.detail = got.1;
            let _ = std::fs::write(&path, serde_json::to_string_pretty(&*rf).unwrap());
        }
    };
    match fresh(&path) {
        Some(got) if got.0 == want_clause => settle(&mut rf, &mut v2, got),
        _ => {
            if let Payload::Stream(t) = &f.payload {
                rf.stream_minimised = Some(t.clone());
            }
            if let Some(b) = rf.builder_original.clone() {
                rf.builder_minimised = Some(b);
            }
            rf.clause = f.violation.clause.clone();
            rf.detail = f.violation.detail.clone();
            v2 = f.violation.clone();
            let _ = std::fs::write(&path, serde_json::to_string_pretty(&rf).unwrap());
            match fresh(&path) {
                Some(got) if got.0 == rf.clause => {
                    settle(&mut rf, &mut v2, got);
                    note = "minimised trace did not reproduce in a fresh process; the replay file holds the unminimised trace of the failing run, which does".into();
                }
                _ => {
                    note = "NOT reproducible in a fresh process from the trace of this run alone: the behaviour depends on state outside the run (e.g. state the code under test keeps between calls, or buffer addresses); the violation was observed in this process as described".into();
                }
            }
        }
    }
    println!("VIOLATION property={} replay={}", id, path);
    println!("  clause {}: {}", v2.clause, v2.detail);
    if !note.is_empty() {
        println!("  note: {}", note);
    }
    println!("  found in run {} (origin {}, seed {}); minimised with {} judge calls", f.index, rf.origin, rf.seed, rf.minimiser_judge_calls);
    write_evidence_violation(opts, &v2, &path);
    std::process::exit(1);
}

fn replay(id: &str, path: &str) -> ! {
    let s = match std::fs::read_to_string(path) {
        Ok(s) => s,
        Err(e) => harness_error(&format!("cannot read {}: {}", path, e)),
    };
    let rf: ReplayFile = match serde_json::from_str(&s) {
        Ok(r) => r,
        Err(e) => harness_error(&format!("cannot parse {}: {}", path, e)),
    };
    if rf.property != id {
        harness_error(&format!("replay file is for property {}, not {}", rf.property, id));
    }
    let v = match rf.kind.as_str() {
        "stream" => {
            let prop = Prop::parse(id).unwrap_or_else(|| harness_error("not a stream property"));
            let t = rf.stream_minimised.as_ref().or(rf.stream_original.as_ref()).unwrap_or_else(|| harness_error("no trace in replay file"));
            judge_stream(t, prop, None)
        }
        _ => {
            let t = rf.builder_minimised.as_ref().or(rf.builder_original.as_ref()).unwrap_or_else(|| harness_error("no trace in replay file"));
            judge_builder(t, None)
        }
    };
    match v {
        Some(v) => {
            println!("VIOLATION property={} replay={}", id, path);
            println!("  clause {}: {}", v.clause, v.detail);
            if v.clause != rf.clause {
                println!("  note: recorded clause was {}", rf.clause);
            } else if v.detail != rf.detail {
                println!("  note: same clause, detail text differs from the recorded one: {}", rf.detail);
            } else {
                println!("  reproduced exactly (clause and detail identical to the recorded violation)");
            }
            std::process::exit(1);
        }
        None => {
            println!("replay: trace in {} does not violate {} on this tree", path, id);
            std::process::exit(0);
        }
    }
}

// ---------------------------------------------------------------------------
// tiers
// ---------------------------------------------------------------------------

fn runs_for(id: &str, tier: &str) -> u64 {
    // fixed numbers (not wall-clock cut-offs): a given seed always explores the same runs
    match (id, tier) {
        ("C03", "quick") => 100_000,
        ("C03", _) => 3_000_000,
        ("C04", "quick") => 150_000,
        ("C04", _) => 2_000_000,
        ("C05", "quick") => 250_000,
        ("C05", _) => 10_000_000,
        ("C06", "quick") => 200_000,
        ("C06", _) => 8_000_000,
        ("C12", "quick") => 400_000,
        ("C12", _) => 30_000_000,
        ("C13", "quick") => 300_000,
        ("C13", _) => 10_000_000,
        _ => 1000,
    }
}

// ---------------------------------------------------------------------------
// stream checks
// ---------------------------------------------------------------------------

struct Phase {
    name: String,
    items: u64,
    stats: Stats,
    wall_s: f64,
}

fn run_stream_check(opts: &Opts, prop: Prop, known: &[Known]) -> (Vec<Phase>, BTreeMap<usize, u64>, serde_json::Value) {
    let mut phases = Vec::new();
    let mut known_hits: BTreeMap<usize, u64> = BTreeMap::new();
    let known_hits_m = std::sync::Mutex::new(BTreeMap::<usize, u64>::new());
    let handle = |v: Violation, p: Payload| -> Option<(Violation, Payload)> {
        if v.property != prop.id() {
            return None;
        }
        if let Some(k) = known_match(known, &v) {
            *known_hits_m.lock().unwrap().entry(k).or_insert(0) += 1;
            return None;
        }
        Some((v, p))
    };
    // phase 1: directed corner scenarios
    let t0 = Instant::now();
    let scen = directed::scenarios(prop);
    let (st, fail) = par_run(scen.len() as u64, opts.jobs, |i, st| {
        let t = &scen[i as usize];
        let w = coverage::account(t, st, 0, 0);
        let v = judge_stream(t, prop, Some(st));
        st.push_digest(t.digest());
        if i == 0 || i as usize == scen.len() / 2 {
            st.samples.push((i, t.sample(if v.is_some() { "violation" } else if w.nontrivial { "ok" } else { "ok(trivial)" })));
        }
        v.and_then(|v| handle(v, Payload::Stream(t.clone())))
    });
    phases.push(Phase { name: "directed".into(), items: scen.len() as u64, stats: st, wall_s: t0.elapsed().as_secs_f64() });
    if let Some(f) = fail {
        report_failure(opts, f);
    }
    // phase 2: systematic sweeps
    let mut extra = json!({});
    if prop == Prop::C04 {
        // cheapest enumerated space first: a damaged frame followed by every 3-byte continuation
        {
            let t0 = Instant::now();
            let mut targets: Vec<(Vec<u8>, C04Target)> = Vec::new();
            for (l, bit) in [(0usize, 30u32), (1, 24), (1, 9), (5, 70)] {
                let payload: Vec<u8> = (0..l).map(|i| 0x5Au8.wrapping_add(i as u8)).collect();
                let mut f = refmodel::make_frame(0, &payload);
                f[bit as usize / 8] ^= 0x80 >> (bit % 8);
                let n = f.len();
                targets.push((f, C04Target { off: 0, frame_len: n, class: "flip1".into(), bits: vec![bit] }));
            }
            let (st_c, fail_c) = par_run(targets.len() as u64 * 256, opts.jobs, |i, st| {
                let (damaged, tgt) = &targets[(i / 256) as usize];
                let (done, bad) = sweep::continuation_slice(damaged, (i % 256) as u8);
                st.oracle_evals += done;
                st.probe_n("c04_continuation_sweep", done);
                st.fault_n("c04_flip1", 1);
                if let Some(buf) = bad {
                    let mut t = StreamTrace::empty("C04");
                    t.origin = format!("sweep:c04:continuation:L={}", tgt.frame_len - 6);
                    t.run = i;
                    t.stream = buf.clone();
                    t.segments.push(trace::Segment { label: "foreign:damaged+flip1".into(), kind: "foreign".into(), start: 0, len: tgt.frame_len, intact: false });
                    t.segments.push(trace::Segment { label: "noise:continuation".into(), kind: "noise".into(), start: tgt.frame_len, len: buf.len() - tgt.frame_len, intact: false });
                    t.c04.push(tgt.clone());
                    t.normalise();
                    let v = judge_stream(&t, prop, None).unwrap_or_else(|| Violation::new("C04", "C04.a", "damaged frame accepted with a continuation".into()));
                    return handle(v, Payload::Stream(t));
                }
                None
            });
            phases.push(Phase { name: "c04_continuation_sweep".into(), items: targets.len() as u64 * 256, stats: st_c, wall_s: t0.elapsed().as_secs_f64() });
            if let Some(f) = fail_c {
                report_failure(opts, f);
            }
        }
        let t0 = Instant::now();
        let thorough = opts.tier == "thorough" && !opts.secondary;
        let plan = if thorough { sweep::SweepPlan::thorough() } else { sweep::SweepPlan::quick() };
        let ls: Vec<usize> = if thorough { (0..=1023).collect() } else { vec![0, 1, 2, 3, 5, 6, 7, 8, 31, 100, 255, 256, 511, 512, 1021, 1022, 1023] };
        let draws = if thorough { 8 } else { 2 };
        let corpus = sweep::corpus(opts.seed, draws, &ls);
        let counts_m = std::sync::Mutex::new(sweep::SweepCounts::default());
        let (st, fail) = par_run(corpus.len() as u64, opts.jobs, |i, st| {
            let fr = &corpus[i as usize];
            let mut r = rng::Rng::from_seed(rng::run_seed(opts.seed ^ 0x5EE9, i));
            let mut counts = sweep::SweepCounts::default();
            let faults = sweep::faults_for(fr.bytes.len(), &plan, &mut r, &mut counts);
            let storms = sweep::storms_for(fr, &faults, (i % 4) as u8 + 1, i);
            let mut res = None;
            for (si, t) in storms.iter().enumerate() {
                st.runs += 1;
                st.stream_bytes += t.stream.len() as u64;
                st.sim_ns += t.sim_ns as u128;
                st.fault_n("dup", t.c04.len() as u64);
                st.push_digest(t.digest());
                let v = judge_stream(t, prop, Some(st));
                if si == 0 {
                    // storms differ by frame and fault list: signature = digest
                    st.nontrivial_runs += 1;
                }
                st.signatures.insert(t.digest());
                if si == 0 && (i == 0 || i as usize == corpus.len() - 1) {
                    st.samples.push((1_000_000 + i, t.sample(if v.is_some() { "violation" } else { "ok" })));
                }
                if let Some(v) = v {
                    res = handle(v, Payload::Stream(t.clone()));
                    if res.is_some() {
                        break;
                    }
                }
            }
            {
                let mut c = counts_m.lock().unwrap();
                c.flip1 += counts.flip1;
                c.flip1_exhaustive_frames += counts.flip1_exhaustive_frames;
                c.flip2 += counts.flip2;
                c.flip2_exhaustive_frames += counts.flip2_exhaustive_frames;
                c.flip_odd += counts.flip_odd;
                c.burst += counts.burst;
                c.burst_exhaustive_frames += counts.burst_exhaustive_frames;
            }
            res
        });
        // every corruption confined to the checksum (all 2^24-1 XOR patterns) of a few frames
        // frames: (frame, also through the scanner?)
        let cw_frames: Vec<(sweep::CorpusFrame, bool)> = {
            let mut v: Vec<(sweep::CorpusFrame, bool)> = corpus.iter().filter(|f| f.label.starts_with("foreign:L=0,") || f.label.starts_with("foreign:L=1,")).cloned().map(|f| (f, true)).collect();
            // checksums that are all zero / start with zero bytes / all ones / start with 0xD3
            for target in [0x000000u32, 0x0000A5, 0x00B6C7, 0xFFFFFF, 0xD30000] {
                if let Some(f) = refmodel::make_frame_with_crc(0, &[0x3E, 0xD0, 0x11, 0x22, 0x33], target) {
                    v.push((sweep::CorpusFrame { label: format!("foreign:L=5,crc={:06x}", target), bytes: f }, true));
                }
            }
            // payload ending in the CRC-24Q of what precedes it ("length counted the checksum")
            for l in [3usize, 4, 9] {
                let mut fr = vec![0xD3u8, 0, l as u8];
                for i in 0..l - 3 {
                    fr.push(0x42u8.wrapping_add(i as u8));
                }
                let c = refmodel::crc24q(&fr);
                let mut q: Vec<u8> = fr[3..].to_vec();
                q.extend_from_slice(&[(c >> 16) as u8, (c >> 8) as u8, c as u8]);
                v.push((sweep::CorpusFrame { label: format!("foreign:L={},inner_crc", l), bytes: refmodel::make_frame(0, &q) }, true));
            }
            // two-byte payloads = bare message numbers: boundaries of the standard (1001..1304 here),
            // unsupported, and the proprietary range 4001..4095; thorough: all 4096 numbers (framer only)
            let special: [u16; 18] = [0, 1, 999, 1000, 1001, 1005, 1077, 1230, 1304, 1305, 2047, 2048, 4000, 4001, 4072, 4094, 4095, 3999];
            let numbers: Vec<u16> = if thorough { (0..4096).collect() } else { special.to_vec() };
            for n in numbers {
                let f = refmodel::make_frame(0, &[(n >> 4) as u8, ((n & 0xF) << 4) as u8]);
                v.push((sweep::CorpusFrame { label: format!("foreign:L=2,number={}", n), bytes: f }, special.contains(&n)));
            }
            let mut libs: Vec<&sweep::CorpusFrame> = corpus.iter().filter(|f| f.label.starts_with("lib:")).collect();
            libs.sort_by_key(|f| f.bytes.len());
            let take = if thorough { 12 } else { 2 };
            let step = (libs.len() / take).max(1);
            for f in libs.iter().step_by(step).take(take) {
                v.push(((*f).clone(), true));
            }
            v
        };
        let cw_evals = std::sync::atomic::AtomicU64::new(0);
        let (st_cw, fail_cw) = par_run(cw_frames.len() as u64 * 256, opts.jobs, |i, st| {
            let (fr, via_scanner) = &cw_frames[(i / 256) as usize];
            let (done, bad) = sweep::checksum_window_slice(fr, (i % 256) as u8, *via_scanner);
            cw_evals.fetch_add(done, std::sync::atomic::Ordering::Relaxed);
            st.oracle_evals += done;
            st.fault_n("c04_burst", done);
            st.probe_n("c04_hits_checksum", done);
            if let Some(t) = bad {
                let v = judge_stream(&t, prop, None).unwrap_or_else(|| Violation::new("C04", "C04.a", "checksum-window pattern accepted".into()));
                return handle(v, Payload::Stream(t));
            }
            None
        });
        // every burst (span <= 24) at every position of payload + checksum of the L = 1, 2, 3 frames
        let sw_frames: Vec<sweep::CorpusFrame> = [1usize, 2, 3]
            .iter()
            .map(|l| {
                let p: Vec<u8> = (0..*l).map(|i| 0x3E_u8.wrapping_add((i as u8).wrapping_mul(0x91))).collect();
                sweep::CorpusFrame { label: format!("foreign:L={},r=0,fixed", l), bytes: refmodel::make_frame(0, &p) }
            })
            .collect();
        let mut sw_items: Vec<(usize, usize)> = Vec::new();
        for (fi, f) in sw_frames.iter().enumerate() {
            for start in 24..f.bytes.len() * 8 {
                sw_items.push((fi, start));
            }
        }
        let sw_evals = std::sync::atomic::AtomicU64::new(0);
        let (st_sw, fail_sw) = par_run(sw_items.len() as u64, opts.jobs, |i, st| {
            let (fi, start) = sw_items[i as usize];
            let (done, bad) = sweep::sliding_window_slice(&sw_frames[fi], start);
            sw_evals.fetch_add(done, std::sync::atomic::Ordering::Relaxed);
            st.oracle_evals += done;
            st.fault_n("c04_burst", done);
            if let Some(t) = bad {
                let v = judge_stream(&t, prop, None).unwrap_or_else(|| Violation::new("C04", "C04.a", "burst pattern accepted".into()));
                return handle(v, Payload::Stream(t));
            }
            None
        });
        let sw_total = sw_evals.into_inner();
        let cw_total = cw_evals.into_inner();
        let c = counts_m.into_inner().unwrap();
        extra = json!({
            "checksum_window_patterns": cw_total,
            "checksum_window_frames": cw_frames.iter().take(40).map(|(f, sc)| format!("{}/{}B{}", f.label, f.bytes.len(), if *sc { "+scanner" } else { "" })).collect::<Vec<_>>(),
            "checksum_window_frame_count": cw_frames.len(),
            "sweep_corpus_frames": corpus.len(),
            "sweep_faults": {"flip1": c.flip1, "flip2": c.flip2, "flip_odd": c.flip_odd, "burst": c.burst},
            "exhaustive_subspaces": [
                format!("every single-bit position (reserved bits, payload, checksum) of {} corpus frames (frames up to {} bytes)", c.flip1_exhaustive_frames, plan.single_all_max_len),
                format!("all bit pairs of {} corpus frames (frames up to {} bytes)", c.flip2_exhaustive_frames, plan.pairs_all_max_len),
                format!("every burst span 2..=24 x every start position (all-ones interior + one random interior) of {} corpus frames (frames up to {} bytes)", c.burst_exhaustive_frames, plan.burst_all_max_len),
                format!("every burst of span <= 24 at every start position (all interiors) over payload + checksum of the L = 1, 2, 3 frames: {} patterns", sw_total),
                "four damaged frames x all 2^24 three-byte continuations (x 0 or 3 further bytes): always NotValid".to_string(),
                format!("every corruption confined to the 24 checksum bits (all 2^24-1 XOR patterns, i.e. every burst interior) of {} frames: {} patterns", cw_frames.len(), cw_total),
            ],
            "sampled_subspaces": ["bit pairs on longer frames (distance biased to 1,8,23,24,25,far)", "odd counts 3..=33", "burst start positions on longer frames", "burst interior patterns"],
        });
        let mut st = st;
        st.merge(st_cw);
        st.merge(st_sw);
        if let Some(f) = fail_sw {
            report_failure(opts, f);
        }
        phases.push(Phase { name: "c04_fault_sweep".into(), items: corpus.len() as u64, stats: st, wall_s: t0.elapsed().as_secs_f64() });
        if let Some(f) = fail {
            report_failure(opts, f);
        }
        if let Some(f) = fail_cw {
            report_failure(opts, f);
        }
    }
    if prop == Prop::C03 {
        let t0 = Instant::now();
        let ls: Vec<usize> = if opts.tier == "thorough" && !opts.secondary { (0..=1023).collect() } else { vec![0, 1, 2, 3, 5, 6, 7, 8, 255, 256, 257, 511, 512, 767, 768, 1021, 1022, 1023] };
        let n = ls.len() as u64 * 3;
        let (st, fail) = par_run(n, opts.jobs, |i, st| {
            let l = ls[(i / 3) as usize];
            let t = sweep::c03_length_trace(l, (i % 3) as u8, (i % 4) as u8 + 1);
            let w = coverage::account(&t, st, 0, 0);
            let _ = w;
            st.push_digest(t.digest());
            st.probe("c03_length_sweep_trace");
            let v = judge_stream(&t, prop, Some(st));
            if i == 0 {
                st.samples.push((2_000_000 + i, t.sample(if v.is_some() { "violation" } else { "ok" })));
            }
            v.and_then(|v| handle(v, Payload::Stream(t.clone())))
        });
        // every header value: 64 reserved-bit settings x 1024 lengths, each as a valid frame (must be
        // accepted), one byte short (Incomplete), one checksum bit off (NotValid), one byte extra
        let t1 = Instant::now();
        let (st_h, fail_h) = par_run(1024, opts.jobs, |l, st| {
            let l = l as usize;
            let payload: Vec<u8> = (0..l).map(|i| (i as u8).wrapping_mul(7).wrapping_add(l as u8)).collect();
            for res in 0..64u8 {
                let f = refmodel::make_frame(res, &payload);
                let mut bad = f.clone();
                let n = bad.len();
                bad[n - 1 - (l % 3)] ^= 1 << (res % 8);
                let mut ext = f.clone();
                ext.push(0xD3);
                for (slice, what) in [(&f[..], "valid frame"), (&f[..n - 1], "one byte short"), (&bad[..], "one checksum bit off"), (&ext[..], "one byte extra")] {
                    st.oracle_evals += 1;
                    if let Err(v) = judge::check_c03_slice(slice, &format!("header sweep reserved={:#04x} L={} ({})", res, l, what)) {
                        let mut t = StreamTrace::empty("C03");
                        t.origin = format!("sweep:c03:header:res={},L={}", res, l);
                        t.run = (l as u64) * 64 + res as u64;
                        t.stream = slice.to_vec();
                        t.segments.push(trace::Segment { label: format!("foreign:L={},r={}", l, res), kind: "foreign".into(), start: 0, len: slice.len(), intact: false });
                        t.normalise();
                        return handle(v, Payload::Stream(t));
                    }
                }
            }
            // every value of the FIRST byte, the checksum computed over it: only 0xD3 may be accepted
            if l % 8 == 0 || l < 16 || l > 1015 {
                let mut f = refmodel::make_frame(0, &payload);
                let n = f.len();
                for v in 0..=255u8 {
                    f[0] = v;
                    let c = refmodel::crc24q(&f[..n - 3]);
                    f[n - 3] = (c >> 16) as u8;
                    f[n - 2] = (c >> 8) as u8;
                    f[n - 1] = c as u8;
                    st.oracle_evals += 1;
                    if let Err(viol) = judge::check_c03_slice(&f, &format!("first byte {:#04x} with a checksum computed over it, L={}", v, l)) {
                        let mut t = StreamTrace::empty("C03");
                        t.origin = format!("sweep:c03:first_byte={:#04x},L={}", v, l);
                        t.run = (l as u64) * 256 + v as u64;
                        t.stream = f.clone();
                        t.segments.push(trace::Segment { label: format!("nearmiss:preamble_crc_ok:{:#04x}", v), kind: "nearmiss".into(), start: 0, len: n, intact: false });
                        t.normalise();
                        return handle(viol, Payload::Stream(t));
                    }
                }
                st.probe("c03_first_byte_sweep");
            }
            st.probe_n("c03_header_sweep_frames", 64);
            None
        });
        let mut st = st;
        st.merge(st_h);
        let _ = t1;
        if let Some(f) = fail_h {
            report_failure(opts, f);
        }
        extra = json!({
            "exhaustive_subspaces": ["all 65 536 header values (64 reserved-bit settings x 1024 payload lengths): valid frame accepted with the right attributes, one byte short -> Incomplete, one checksum bit off -> NotValid, one byte extra -> same verdict", "all 256 values of the first byte with a checksum computed over it, for 160 payload lengths: only 0xD3 is accepted"],
            "length_sweep": format!("payload lengths {} x 3 fills, each delivered one byte at a time (every truncation length of every swept L)", if opts.tier == "thorough" && !opts.secondary { "0..=1023 (all)" } else { "18 boundary values" }),
            "length_sweep_traces": n,
        });
        phases.push(Phase { name: "c03_length_sweep".into(), items: n, stats: st, wall_s: t0.elapsed().as_secs_f64() });
        if let Some(f) = fail {
            report_failure(opts, f);
        }
    }
    if prop == Prop::C05 || prop == Prop::C06 {
        // every chunking (all 2^(n-1) cut sets) of a few short streams
        let t0 = Instant::now();
        let shorts = sweep::short_streams();
        let mut total_traces = 0u64;
        let mut agg = Stats::default();
        for (name, ps) in &shorts {
            let nbytes: usize = ps.iter().map(|p| p.bytes.len()).sum();
            let n = 1u64 << (nbytes - 1);
            total_traces += n;
            let (st, fail) = par_run(n, opts.jobs, |mask, st| {
                let t = sweep::chunking_trace(prop, name, ps, mask, (mask % 4) as u8 + 1);
                let w = coverage::account(&t, st, 0, 0);
                let _ = w;
                st.push_digest(t.digest());
                st.probe("enumerated_chunking");
                let v = judge_stream(&t, prop, Some(st));
                if mask == n / 3 {
                    st.samples.push((2_500_000 + mask, t.sample(if v.is_some() { "violation" } else { "ok" })));
                }
                v.and_then(|v| handle(v, Payload::Stream(t.clone())))
            });
            agg.merge(st);
            if let Some(f) = fail {
                report_failure(opts, f);
            }
        }
        extra = json!({
            "exhaustive_subspaces": [format!("all 2^(n-1) chunkings of {} short streams (9..15 bytes: two tiny frames, stray 0xD3, broken frame, header-only, nested frames), {} traces, rover variant rotating", shorts.len(), total_traces)],
        });
        phases.push(Phase { name: "all_chunkings_of_short_streams".into(), items: total_traces, stats: agg, wall_s: t0.elapsed().as_secs_f64() });
    }
    if prop == Prop::C03 || prop == Prop::C05 {
        // every checksum VALUE: for each of the 2^24 values a valid frame (3-byte payload chosen so
        // that the checksum takes that value), alone and followed by one byte
        let t0 = Instant::now();
        let (st, fail) = par_run(256, opts.jobs, |top, st| {
            for low in 0..=0xFFFFu32 {
                let target = ((top as u32) << 16) | low;
                let Some(mut f) = refmodel::make_frame_with_crc((low % 64) as u8 * ((top % 2) as u8), &[0, 0, 0], target) else { continue };
                st.oracle_evals += 2;
                let res = if prop == Prop::C03 {
                    judge::check_c03_slice(&f, &format!("valid frame with checksum {:06x}", target)).map(|_| ())
                } else {
                    f.push(0xD3);
                    judge::check_c05_buffer(&f, &format!("valid frame with checksum {:06x} followed by d3", target))
                };
                if let Err(v) = res {
                    let mut t = StreamTrace::empty(prop.id());
                    t.origin = format!("sweep:checksum_value:{:06x}", target);
                    t.run = target as u64;
                    t.stream = f.clone();
                    t.segments.push(trace::Segment { label: format!("foreign:L=3,crc={:06x}", target), kind: "foreign".into(), start: 0, len: 9, intact: true });
                    t.normalise();
                    return handle(v, Payload::Stream(t));
                }
            }
            st.probe_n("checksum_value_sweep_frames", 65536);
            None
        });
        phases.push(Phase { name: "every_checksum_value".into(), items: 1 << 24, stats: st, wall_s: t0.elapsed().as_secs_f64() });
        if let Some(f) = fail {
            report_failure(opts, f);
        }
        if let Some(obj) = extra.as_object_mut() {
            let e = obj.entry("exhaustive_subspaces").or_insert(json!([]));
            if let Some(a) = e.as_array_mut() {
                a.push(json!("all 2^24 checksum values: for each value a valid 9-byte frame carrying it (framer for C03; scanner with one following byte for C05)"));
            }
        }
    }
    if prop == Prop::C03 || prop == Prop::C05 || prop == Prop::C13 {
        // every message number 0..4095 as a bare two-byte payload and with a few body bytes, followed by
        // nothing / one byte / another frame
        let t0 = Instant::now();
        let (st, fail) = par_run(4096, opts.jobs, |n, st| {
            let n = n as u16;
            for body in [0usize, 1, 6] {
                let mut p = vec![(n >> 4) as u8, ((n & 0xF) << 4) as u8];
                for i in 0..body {
                    p.push((n as u8).wrapping_mul(3).wrapping_add(i as u8));
                }
                let f = refmodel::make_frame(0, &p);
                for sfx in [&[][..], &[0x00][..], &[0xD3, 0x00][..]] {
                    let mut v = f.clone();
                    v.extend_from_slice(sfx);
                    st.oracle_evals += 2;
                    let what = format!("frame for message number {} (payload {} bytes) + {} suffix bytes", n, p.len(), sfx.len());
                    let res = if prop == Prop::C05 {
                        judge::check_c05_buffer(&v, &what)
                    } else if prop == Prop::C03 {
                        judge::check_c03_slice(&v, &what).map(|_| ())
                    } else {
                        judge::check_c13(&v, f.len(), &what, true, None).and_then(|_| judge::check_c13_scanner(&v, f.len(), &what))
                    };
                    if let Err(viol) = res {
                        let mut t = StreamTrace::empty(prop.id());
                        t.origin = format!("sweep:message_number:{}", n);
                        t.run = n as u64;
                        t.stream = v.clone();
                        t.segments.push(trace::Segment { label: format!("foreign:L={},number={}", p.len(), n), kind: "foreign".into(), start: 0, len: f.len(), intact: true });
                        t.normalise();
                        return handle(viol, Payload::Stream(t));
                    }
                }
            }
            st.probe("message_number_sweep");
            None
        });
        phases.push(Phase { name: "every_message_number".into(), items: 4096, stats: st, wall_s: t0.elapsed().as_secs_f64() });
        if let Some(f) = fail {
            report_failure(opts, f);
        }
        if let Some(obj) = extra.as_object_mut() {
            let e = obj.entry("exhaustive_subspaces").or_insert(json!([]));
            if let Some(a) = e.as_array_mut() {
                a.push(json!("all 4096 message numbers as frames with 2-, 3- and 8-byte payloads x {no suffix, one byte, d3 00}"));
            }
        }
    }
    // phase 3: seeded random exploration
    let t0 = Instant::now();
    let n = opts.runs.unwrap_or_else(|| runs_for(&opts.id, &opts.tier) / if opts.secondary { 4 } else { 1 });
    let (st, fail) = par_run(n, opts.jobs, |i, st| {
        let g = gen_stream(opts.seed, i, prop);
        let t = &g.trace;
        let w = coverage::account(t, st, g.stalls, g.short_reads);
        st.probe_n("generator_refusals_or_panics(workload)", g.gen_failures);
        st.push_digest(t.digest());
        let v = judge_stream(t, prop, Some(st));
        if i == 0 || i == n / 2 || i == n - 1 {
            st.samples.push((3_000_000 + i, t.sample(if v.is_some() { "violation" } else if w.nontrivial { "ok" } else { "ok(trivial)" })));
        }
        v.and_then(|v| handle(v, Payload::Stream(t.clone())))
    });
    phases.push(Phase { name: "random".into(), items: n, stats: st, wall_s: t0.elapsed().as_secs_f64() });
    if let Some(f) = fail {
        report_failure(opts, f);
    }
    for (k, v) in known_hits_m.into_inner().unwrap() {
        *known_hits.entry(k).or_insert(0) += v;
    }
    (phases, known_hits, extra)
}

fn run_builder_check(opts: &Opts, known: &[Known]) -> (Vec<Phase>, BTreeMap<usize, u64>, serde_json::Value) {
    let mut phases = Vec::new();
    let known_hits_m = std::sync::Mutex::new(BTreeMap::<usize, u64>::new());
    let handle = |v: Violation, p: Payload| -> Option<(Violation, Payload)> {
        if let Some(k) = known_match(known, &v) {
            *known_hits_m.lock().unwrap().entry(k).or_insert(0) += 1;
            return None;
        }
        Some((v, p))
    };
    let t0 = Instant::now();
    let scen = directed_builder(opts.tier == "thorough" && !opts.secondary);
    let (st, fail) = par_run(scen.len() as u64, opts.jobs, |i, st| {
        let t = &scen[i as usize];
        st.push_digest(t.digest());
        let v = judge_builder(t, Some(st));
        if i == 0 || i as usize == scen.len() / 2 {
            st.samples.push((i, t.sample(if v.is_some() { "violation" } else { "ok" })));
        }
        if v.is_none() && t.pristine_reference {
            if let Some((v2, witness)) = builder::pollution_check(t) {
                return handle(v2, Payload::Builder(witness));
            }
        }
        if t.ops.len() <= 64 {
            builder::remember_ops(&t.ops);
        }
        v.and_then(|v| handle(v, Payload::Builder(t.clone())))
    });
    phases.push(Phase { name: "directed".into(), items: scen.len() as u64, stats: st, wall_s: t0.elapsed().as_secs_f64() });
    if let Some(f) = fail {
        report_failure(opts, f);
    }
    let t0 = Instant::now();
    let n = opts.runs.unwrap_or_else(|| runs_for(&opts.id, &opts.tier) / if opts.secondary { 4 } else { 1 });
    let (st, fail) = par_run(n, opts.jobs, |i, st| {
        let t = gen_builder_trace(opts.seed, i);
        st.push_digest(t.digest());
        let v = judge_builder(&t, Some(st));
        if i == 0 || i == n / 2 || i == n - 1 {
            st.samples.push((3_000_000 + i, t.sample(if v.is_some() { "violation" } else { "ok" })));
        }
        if v.is_none() && t.pristine_reference {
            if let Some((v2, witness)) = builder::pollution_check(&t) {
                return handle(v2, Payload::Builder(witness));
            }
        }
        builder::remember_ops(&t.ops);
        v.and_then(|v| handle(v, Payload::Builder(t.clone())))
    });
    phases.push(Phase { name: "random".into(), items: n, stats: st, wall_s: t0.elapsed().as_secs_f64() });
    if let Some(f) = fail {
        report_failure(opts, f);
    }
    (phases, known_hits_m.into_inner().unwrap(), json!({}))
}

// ---------------------------------------------------------------------------
// evidence
// ---------------------------------------------------------------------------

fn level_of(id: &str) -> &'static str {
    if id == "C04" {
        "fault_enumeration"
    } else {
        "exploration"
    }
}

fn rule_of(id: &str) -> String {
    match id {
        "C12" => "cases = operation histories on one long-lived MessageBuilder (directed corner histories, then histories generated from VERIF_SEED: builds of decoded generated messages of all types, refusals part-way, no-wire-form messages, k-th-put failures injected through the guarded hook, generator calls); after every judged op the result is compared with a fresh builder's. distinct = distinct run signature (order-sensitive hash of per-op outcome class and frame-length class); non-trivial = history of at least two operations with at least one judged op".to_string(),
        _ => "cases = simulated runs station(s)->mux->channel->rover (directed corner scenarios, systematic sweeps where the property names an enumerable space, then runs generated from VERIF_SEED: real-encoder frames of all types + foreign frames of all lengths + noise, channel faults, a read schedule from the discrete-event line/poll model or a directed cut strategy, one of four rover variants). distinct = distinct run signature (order-sensitive hash of fault kinds x item kinds, and per chunk: size class, effect on the head candidate, frames delivered, bytes skipped, abstract tail state, cut class relative to the frame it falls in; plus rover variant); non-trivial = the reference rover delivered a frame or skipped a dead candidate AND (>= 2 chunks or >= 1 fault)".to_string(),
    }
}

fn components() -> serde_json::Value {
    json!({
        "real": [
            "rtcm_rs::next_msg_frame", "rtcm_rs::MsgFrameIter::{new,next,consumed}",
            "rtcm_rs::MessageFrame::{new,frame_len,data_len,data,frame_data,crc,message_number,get_message}",
            "rtcm_rs::MessageBuilder::{new,build_message,build_generated_message}",
            "rtcm_rs::val_gen::ValGen + per-message generate (feature test_gen)",
            "crc-any CRC::crc24lte_a as linked by rtcm-rs",
            "Assembler::put failure hook (cfg rtcm_rs_verif, thread-local, off by default)"
        ],
        "stub": [
            "foreign framer (reference CRC)", "noise source (NMEA/UBX/random/0xD3-heavy/zeros/headers)",
            "mux + channel fault processes + line clock", "rover buffer management V1..V4 (caller-side contract code)",
            "reference model (crc24q, ref_accept, ref_scan, ref_number) used as oracle"
        ]
    })
}

fn required_nonzero(id: &str, tier: &str) -> (Vec<&'static str>, Vec<&'static str>) {
    // (fault kinds, probes) that must have fired for the batch to mean anything
    let _ = tier;
    match id {
        "C03" => (vec!["trunc_tail", "hdr_len", "hdr_pre"], vec!["c03_accept", "c03_incomplete", "c03_notvalid", "c03_notaframe", "c03_L0", "c03_L1", "c03_L1023", "c03_reserved_nonzero_accepted", "c03_incomplete_one_byte_short", "c03_reserved_sweep_64"]),
        "C04" => (vec!["c04_flip1", "c04_flip2", "c04_flip_odd", "c04_burst", "dup"], vec!["c04_hits_checksum", "c04_hits_reserved_bits", "c04_hits_payload", "c04_L0_frame", "c04_L1023_frame"]),
        "C05" => (
            vec!["drop", "trunc_tail", "insert", "dup", "swap", "flip_any", "hdr_len", "hdr_pre", "rx_restart"],
            vec!["scan_frame", "scan_frame_after_skipped_bytes", "scan_skipped_dead_candidate_before_frame", "scan_blocked_by_incomplete", "scan_consume_all_no_candidate", "scan_incomplete_blocks_later_valid_frame", "iter_pass", "iter_stops_at_incomplete", "nested_in_valid_outer", "nested_in_broken_outer", "nested_in_incomplete_outer", "long_header_item"],
        ),
        "C06" => (
            vec!["drop", "trunc_tail", "insert", "dup", "rx_restart", "short_read", "stall"],
            vec!["cut_after_preamble", "cut_inside_length_field", "cut_inside_payload", "cut_inside_checksum", "cut_before_checksum", "cut_exactly_at_frame_end", "c06_frames_compared"],
        ),
        "C12" => (vec!["put_fail", "natural_fail", "natural_fail:no_wire_form"], vec!["c12_fail_then_ok", "c12_long_then_short", "c12_short_then_long", "c12_injected_fail_at_first_put", "c12_injected_fail_deeper_than_next_frame", "c12_padding_bits_1to7"]),
        "C13" => (vec!["short_read", "stall"], vec!["c13_suffix_0", "c13_suffix_1", "c13_suffix_2to5", "c13_suffix_ge_frame", "c13_L0_delivered", "c13_L1_delivered", "c13_L1023_delivered", "c13_short_payload_with_2plus_suffix", "c13_directed_suffix_set", "c13_decoded_typed", "c13_decoded_empty"]),
        _ => (vec![], vec![]),
    }
}

fn evidence_path(opts: &Opts) -> String {
    format!("{}/evidence/{}.json", opts.out_dir, opts.id)
}

fn write_evidence_violation(opts: &Opts, v: &Violation, replay: &str) {
    let ev = json!({
        "property_id": opts.id, "tier": opts.tier, "seed": opts.seed, "level": level_of(&opts.id),
        "wall_s": 0.0, "violations": 1,
        "assumptions": ["run stopped at the first violation; coverage counters are not meaningful for a failing run"],
        "coverage": {"evaluations": 1, "distinct_nontrivial": 0, "rule": rule_of(&opts.id),
            "samples": [{"violation": {"clause": v.clause, "detail": v.detail, "replay": replay}}]},
    });
    let _ = std::fs::create_dir_all(format!("{}/evidence", opts.out_dir));
    let _ = std::fs::write(evidence_path(opts), serde_json::to_string_pretty(&ev).unwrap());
}

fn finish(opts: &Opts, phases: Vec<Phase>, known: &[Known], known_hits: BTreeMap<usize, u64>, extra: serde_json::Value, wall_s: f64, self_test_vectors: usize) -> ! {
    let mut total = Stats::default();
    let mut phase_json = Vec::new();
    for p in phases {
        phase_json.push(json!({"phase": p.name, "items": p.items, "runs": p.stats.runs, "wall_s": (p.wall_s * 1000.0).round() / 1000.0,
            "batch_digest": format!("{:016x}/{:016x}", p.stats.digest_xor, p.stats.digest_sum)}));
        total.merge(p.stats);
    }
    // harness self-check: required faults / probes fired?
    let (need_f, need_p) = required_nonzero(&opts.id, &opts.tier);
    let mut missing = Vec::new();
    if opts.runs.is_none() {
        for f in need_f {
            if total.faults.get(f).copied().unwrap_or(0) == 0 {
                missing.push(format!("fault:{}", f));
            }
        }
        for p in need_p {
            if total.probes.get(p).copied().unwrap_or(0) == 0 {
                missing.push(format!("probe:{}", p));
            }
        }
    }
    let mut samples = total.samples.clone();
    samples.sort_by_key(|s| s.0);
    let samples: Vec<serde_json::Value> = samples.into_iter().map(|s| s.1).take(8).collect();
    let sim_s = total.sim_ns as f64 / 1e9;
    let per_hour = if wall_s > 0.0 { (total.runs as f64 / wall_s * 3600.0) as u64 } else { 0 };
    let mut coverage = json!({
        "evaluations": total.runs,
        "distinct_nontrivial": total.signatures.len(),
        "nontrivial_runs": total.nontrivial_runs,
        "rule": rule_of(&opts.id),
        "samples": samples,
        "oracle_evaluations": total.oracle_evals,
        "scanner_calls": total.scanner_calls,
        "stream_bytes": total.stream_bytes,
        "runs_per_hour": per_hour,
        "seeds_per_hour": per_hour,
        "simulated_seconds": if opts.id == "C12" { serde_json::Value::Null } else { json!((sim_s * 1000.0).round() / 1000.0) },
        "discrete_events": total.events,
        "faults_fired": total.faults,
        "probes": total.probes,
        "strategies": total.strategies,
        "abstract_states": total.abs_states.len(),
        "abstract_transitions": total.abs_transitions.len(),
        "states": total.abs_states.len(),
        "transitions": total.abs_transitions.len(),
        "exhaustive": false,
        "phases": phase_json,
        "components": components(),
        "build_profile": opts.profile_tag,
        "out_of_scope_observations": total.out_of_scope,
        "reference_self_test_vectors": self_test_vectors,
        "batch_digest": format!("{:016x}/{:016x}", total.digest_xor, total.digest_sum),
        "known_findings_matched": known_hits.values().sum::<u64>(),
    });
    if let (Some(obj), Some(ex)) = (coverage.as_object_mut(), extra.as_object()) {
        for (k, v) in ex {
            obj.insert(k.clone(), v.clone());
        }
    }
    let assumptions = vec![
        "sampling, not proof: a clean batch is evidence that the property holds on the runs explored".to_string(),
        "trusted base: reference CRC-24Q / ref_accept / ref_scan / ref_number (refmodel.rs), cross-checked at start-up against the CRC catalogue check value and the shipped single-frame vectors".to_string(),
        "rover buffer handling, channel, foreign framer and noise source are stubs implementing the caller's side of the documented contract".to_string(),
        "decoder panics on CRC-valid hostile payloads (C02) are out of scope and only counted under out_of_scope_observations".to_string(),
    ];
    let path = evidence_path(opts);
    let _ = std::fs::create_dir_all(format!("{}/evidence", opts.out_dir));
    if opts.secondary {
        // second build profile of the thorough tier: fold a summary into the existing file
        let mut ev: serde_json::Value = std::fs::read_to_string(&path).ok().and_then(|s| serde_json::from_str(&s).ok()).unwrap_or_else(|| harness_error("secondary profile run without primary evidence"));
        let w0 = ev["wall_s"].as_f64().unwrap_or(0.0);
        ev["wall_s"] = json!(((w0 + wall_s) * 1000.0).round() / 1000.0);
        ev["coverage"]["second_profile"] = json!({"build_profile": opts.profile_tag, "evaluations": total.runs, "distinct_nontrivial": total.signatures.len(),
            "oracle_evaluations": total.oracle_evals, "wall_s": (wall_s * 1000.0).round() / 1000.0, "violations": 0,
            "batch_digest": format!("{:016x}/{:016x}", total.digest_xor, total.digest_sum)});
        if let Err(e) = std::fs::write(&path, serde_json::to_string_pretty(&ev).unwrap()) {
            harness_error(&format!("cannot write {}: {}", path, e));
        }
    } else {
        let ev = json!({
            "property_id": opts.id, "tier": opts.tier, "seed": opts.seed, "level": level_of(&opts.id),
            "wall_s": (wall_s * 1000.0).round() / 1000.0, "violations": 0, "assumptions": assumptions, "coverage": coverage,
        });
        if let Err(e) = std::fs::write(&path, serde_json::to_string_pretty(&ev).unwrap()) {
            harness_error(&format!("cannot write {}: {}", path, e));
        }
    }
    for (k, n) in &known_hits {
        let kf = &known[*k];
        println!("KNOWN-FINDING: property={} {} (clause {}, matched {} runs)", kf.property, kf.text, kf.clause, n);
    }
    println!(
        "OK property={} tier={} profile={} seed={} runs={} distinct_nontrivial={} oracle_evals={} wall={:.1}s digest={:016x}/{:016x}",
        opts.id,
        opts.tier,
        opts.profile_tag,
        opts.seed,
        total.runs,
        total.signatures.len(),
        total.oracle_evals,
        wall_s,
        total.digest_xor,
        total.digest_sum
    );
    if !missing.is_empty() {
        harness_error(&format!("batch proved less than it claims: never fired: {}", missing.join(", ")));
    }
    std::process::exit(0);
}

// ---------------------------------------------------------------------------
// determinism self-test
// ---------------------------------------------------------------------------

/// per-run digests for run indices lo..hi of property `id`, printed one per line;
/// the `check` script runs this in separate processes with different worker
/// counts and diffs the output
fn digests(id: &str, seed: u64, lo: u64, hi: u64, jobs: usize) {
    let out = std::sync::Mutex::new(BTreeMap::<u64, String>::new());
    let n = hi - lo;
    if id == "C12" {
        par_run(n, jobs, |i, _st| {
            let t = gen_builder_trace(seed, lo + i);
            let mut st = Stats::default();
            let v = judge_builder(&t, Some(&mut st));
            let line = format!("{} {:016x} {} {} {:?}", lo + i, t.digest(), st.oracle_evals, st.abs_transitions.len(), v.map(|v| v.clause));
            out.lock().unwrap().insert(lo + i, line);
            None
        });
    } else {
        let prop = Prop::parse(id).unwrap_or_else(|| harness_error("unknown property"));
        par_run(n, jobs, |i, _st| {
            let g = gen_stream(seed, lo + i, prop);
            let mut st = Stats::default();
            let w = coverage::account(&g.trace, &mut st, g.stalls, g.short_reads);
            let v = judge_stream(&g.trace, prop, Some(&mut st));
            let mut pd = rng::Digest::new();
            for (k, c) in &st.probes {
                pd.push_str(k);
                pd.push(*c);
            }
            for (k, c) in &st.faults {
                pd.push_str(k);
                pd.push(*c);
            }
            let line = format!("{} {:016x} {:016x} {:016x} {} {} {:?}", lo + i, g.trace.digest(), g.trace.event_digest, w.signature, st.oracle_evals, pd.finish(), v.map(|v| v.clause));
            out.lock().unwrap().insert(lo + i, line);
            None
        });
    }
    for (_, l) in out.into_inner().unwrap() {
        println!("{}", l);
    }
}

// ---------------------------------------------------------------------------
// main
// ---------------------------------------------------------------------------

fn usage() -> ! {
    eprintln!("usage: rtcm-sim check <ID> [--tier quick|thorough] [--seed N] [--jobs N] [--runs N] [--profile-tag T] [--secondary] [--out-dir D]");
    eprintln!("       rtcm-sim replay <ID> <file>");
    eprintln!("       rtcm-sim one <ID> --seed S --run R");
    eprintln!("       rtcm-sim digests <ID> --seed S --lo A --hi B --jobs N");
    std::process::exit(2);
}

fn main() {
    workload::install_quiet_panic_hook();
    let args: Vec<String> = std::env::args().collect();
    if args.len() < 3 {
        usage();
    }
    if args[1] == "fresh-op" {
        std::process::exit(builder::fresh_op_child(&args[2]));
    }
    if args[1] == "decode-frame" {
        std::process::exit(judge::decode_child(&args[2]));
    }
    if args[1] == "judge-history" {
        std::process::exit(builder::history_child());
    }
    let cmd = args[1].as_str();
    let id = args[2].clone();
    let mut tier = std::env::var("VERIF_TIER").ok().filter(|t| t == "quick" || t == "thorough").unwrap_or_else(|| "quick".to_string());
    let mut seed: u64 = std::env::var("VERIF_SEED").ok().and_then(|s| s.trim().parse().ok()).unwrap_or(1);
    let mut jobs: usize = std::thread::available_parallelism().map(|n| n.get()).unwrap_or(4);
    let mut runs: Option<u64> = None;
    let mut run_idx: u64 = 0;
    let mut lo: u64 = 0;
    let mut hi: u64 = 100;
    let mut profile_tag = "release".to_string();
    let mut secondary = false;
    let mut out_dir = verif_dir();
    let mut file: Option<String> = None;
    let mut i = 3;
    while i < args.len() {
        let a = args[i].as_str();
        let mut val = || -> String {
            i += 1;
            args.get(i).cloned().unwrap_or_else(|| usage())
        };
        match a {
            "--tier" => tier = val(),
            "--seed" => seed = val().parse().unwrap_or_else(|_| usage()),
            "--jobs" => jobs = val().parse().unwrap_or_else(|_| usage()),
            "--runs" => runs = Some(val().parse().unwrap_or_else(|_| usage())),
            "--run" => run_idx = val().parse().unwrap_or_else(|_| usage()),
            "--lo" => lo = val().parse().unwrap_or_else(|_| usage()),
            "--hi" => hi = val().parse().unwrap_or_else(|_| usage()),
            "--profile-tag" => profile_tag = val(),
            "--secondary" => secondary = true,
            "--out-dir" => out_dir = val(),
            other if !other.starts_with("--") && file.is_none() => file = Some(other.to_string()),
            _ => usage(),
        }
        i += 1;
    }
    if tier != "quick" && tier != "thorough" {
        usage();
    }
    let opts = Opts { id: id.clone(), tier, seed, jobs, runs, profile_tag, secondary, out_dir };
    match cmd {
        "replay" => replay(&id, file.as_deref().unwrap_or_else(|| usage())),
        "digests" => {
            digests(&id, seed, lo, hi, jobs);
        }
        "one" => {
            if id == "C12" {
                let t = gen_builder_trace(seed, run_idx);
                println!("{}", serde_json::to_string_pretty(&t).unwrap());
                match judge_builder(&t, None) {
                    Some(v) => println!("violation {}: {}", v.clause, v.detail),
                    None => println!("ok"),
                }
            } else {
                let prop = Prop::parse(&id).unwrap_or_else(|| usage());
                let g = gen_stream(seed, run_idx, prop);
                println!("{}", serde_json::to_string_pretty(&g.trace.sample("?")).unwrap());
                match judge_stream(&g.trace, prop, None) {
                    Some(v) => println!("violation {}: {}", v.clause, v.detail),
                    None => println!("ok"),
                }
            }
        }
        "check" => {
            let t0 = Instant::now();
            println!("rtcm-sim check {} tier={} VERIF_SEED={} jobs={} profile={}", opts.id, opts.tier, opts.seed, opts.jobs, opts.profile_tag);
            let vectors = match refmodel::self_test(&repo_dir()) {
                Ok(n) => n,
                Err(e) => harness_error(&format!("reference model self-test failed: {}", e)),
            };
            let known = load_known();
            let (phases, hits, extra) = if id == "C12" {
                run_builder_check(&opts, &known)
            } else {
                let prop = Prop::parse(&id).unwrap_or_else(|| harness_error(&format!("property {} is not claimed by this engine", id)));
                run_stream_check(&opts, prop, &known)
            };
            finish(&opts, phases, &known, hits, extra, t0.elapsed().as_secs_f64(), vectors);
        }
        _ => usage(),
    }
}
