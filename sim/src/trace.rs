//! Recorded traces: everything a judge needs, stored explicitly so that a
//! replay file reproduces a violation without re-running the PRNG.

use crate::rng::Digest;
use serde::{Deserialize, Serialize};

pub mod hexbytes {
    use serde::{Deserialize, Deserializer, Serializer};
    pub fn serialize<S: Serializer>(v: &Vec<u8>, s: S) -> Result<S::Ok, S::Error> {
        let mut out = String::with_capacity(v.len() * 2);
        for b in v {
            out.push_str(&format!("{:02x}", b));
        }
        s.serialize_str(&out)
    }
    pub fn deserialize<'de, D: Deserializer<'de>>(d: D) -> Result<Vec<u8>, D::Error> {
        let s = String::deserialize(d)?;
        let s = s.trim();
        if s.len() % 2 != 0 {
            return Err(serde::de::Error::custom("odd hex length"));
        }
        (0..s.len() / 2)
            .map(|i| {
                u8::from_str_radix(&s[2 * i..2 * i + 2], 16)
                    .map_err(|e| serde::de::Error::custom(format!("{}", e)))
            })
            .collect()
    }
}

pub fn hex(v: &[u8]) -> String {
    let mut out = String::with_capacity(v.len() * 2);
    for b in v {
        out.push_str(&format!("{:02x}", b));
    }
    out
}

/// provenance of a byte range of the post-fault stream
#[derive(Clone, Debug, Serialize, Deserialize, PartialEq)]
pub struct Segment {
    pub label: String,
    /// lib | built | foreign | nearmiss | nested | noise
    pub kind: String,
    pub start: usize,
    pub len: usize,
    /// a complete valid frame that no fault touched
    pub intact: bool,
}

#[derive(Clone, Debug, Serialize, Deserialize, PartialEq)]
pub struct FaultRec {
    pub kind: String,
    /// label of the item hit
    pub item: String,
    pub detail: String,
}

/// ground truth for C04: a valid frame that received exactly one fault of a
/// guaranteed-detectable class inside reserved bits / payload / checksum
#[derive(Clone, Debug, Serialize, Deserialize, PartialEq)]
pub struct C04Target {
    /// offset of the damaged frame in the post-fault stream
    pub off: usize,
    pub frame_len: usize,
    /// flip1 | flip2 | flip_odd | burst
    pub class: String,
    /// flipped bit positions relative to the frame start (bit 0 = MSB of byte 0)
    pub bits: Vec<u32>,
}

#[derive(Clone, Debug, Serialize, Deserialize, PartialEq)]
pub struct StreamTrace {
    pub property: String,
    pub seed: u64,
    pub run: u64,
    /// random | directed:<name> | sweep:<what>
    pub origin: String,
    pub strategy: String,
    /// 1..=4, rover variant V1..V4
    pub rx_variant: u8,
    pub baud: u32,
    pub sim_ns: u64,
    pub events: u64,
    pub event_digest: u64,
    pub segments: Vec<Segment>,
    pub faults: Vec<FaultRec>,
    #[serde(with = "hexbytes")]
    pub stream: Vec<u8>,
    /// chunk boundaries: strictly increasing absolute offsets in 1..stream.len()
    pub cuts: Vec<usize>,
    /// subset of `cuts` (or further offsets) at which the rover restarts and
    /// loses its unconsumed tail
    pub restarts: Vec<usize>,
    pub c04: Vec<C04Target>,
}

impl StreamTrace {
    pub fn empty(property: &str) -> Self {
        StreamTrace {
            property: property.to_string(),
            seed: 0,
            run: 0,
            origin: "directed".into(),
            strategy: "one_shot".into(),
            rx_variant: 1,
            baud: 115200,
            sim_ns: 0,
            events: 0,
            event_digest: 0,
            segments: vec![],
            faults: vec![],
            stream: vec![],
            cuts: vec![],
            restarts: vec![],
            c04: vec![],
        }
    }

    /// normalise cuts/restarts: sorted, unique, inside the stream; restarts
    /// are also cuts
    pub fn normalise(&mut self) {
        let n = self.stream.len();
        for r in self.restarts.clone() {
            self.cuts.push(r);
        }
        self.cuts.retain(|&c| c > 0 && c < n);
        self.cuts.sort_unstable();
        self.cuts.dedup();
        self.restarts.retain(|&c| c > 0 && c < n);
        self.restarts.sort_unstable();
        self.restarts.dedup();
    }

    pub fn digest(&self) -> u64 {
        let mut d = Digest::new();
        d.push_bytes(&self.stream);
        d.push(self.cuts.len() as u64);
        for c in &self.cuts {
            d.push(*c as u64);
        }
        d.push(self.restarts.len() as u64);
        for c in &self.restarts {
            d.push(*c as u64);
        }
        d.push(self.rx_variant as u64);
        d.push_str(&self.strategy);
        for s in &self.segments {
            d.push_str(&s.label);
            d.push(s.start as u64);
            d.push(s.len as u64);
        }
        for f in &self.faults {
            d.push_str(&f.kind);
            d.push_str(&f.detail);
        }
        for t in &self.c04 {
            d.push(t.off as u64);
            d.push(t.frame_len as u64);
            for b in &t.bits {
                d.push(*b as u64);
            }
        }
        d.push(self.event_digest);
        d.finish()
    }

    /// remove the byte range [a, b) from the stream, shifting cuts, restarts,
    /// segments and C04 targets; targets overlapping the range are dropped.
    pub fn remove_range(&mut self, a: usize, b: usize) {
        let n = self.stream.len();
        let b = b.min(n);
        if a >= b {
            return;
        }
        let d = b - a;
        self.stream.drain(a..b);
        let map = |p: usize| -> usize {
            if p <= a {
                p
            } else if p >= b {
                p - d
            } else {
                a
            }
        };
        for c in self.cuts.iter_mut() {
            *c = map(*c);
        }
        for c in self.restarts.iter_mut() {
            *c = map(*c);
        }
        let mut segs = Vec::new();
        for s in &self.segments {
            let s0 = map(s.start);
            let s1 = map(s.start + s.len);
            if s1 > s0 {
                let mut t = s.clone();
                t.start = s0;
                t.len = s1 - s0;
                if t.len != s.len {
                    t.intact = false;
                }
                segs.push(t);
            }
        }
        self.segments = segs;
        self.c04.retain(|t| t.off + t.frame_len <= a || t.off >= b);
        for t in self.c04.iter_mut() {
            if t.off >= b {
                t.off -= d;
            }
        }
        self.normalise();
    }

    /// compact one-line-ish JSON summary used for evidence samples
    pub fn sample(&self, outcome: &str) -> serde_json::Value {
        let items: Vec<String> = self
            .segments
            .iter()
            .take(12)
            .map(|s| format!("{}/{}B", s.label, s.len))
            .collect();
        let faults: Vec<String> = self
            .faults
            .iter()
            .take(8)
            .map(|f| format!("{}@{}:{}", f.kind, f.item, f.detail))
            .collect();
        let mut chunks: Vec<usize> = Vec::new();
        let mut prev = 0usize;
        for c in self.cuts.iter().take(16) {
            chunks.push(*c - prev);
            prev = *c;
        }
        serde_json::json!({
            "run": self.run,
            "origin": self.origin,
            "rx": format!("V{}", self.rx_variant),
            "baud": self.baud,
            "strategy": self.strategy,
            "stream_bytes": self.stream.len(),
            "items": items,
            "n_items": self.segments.len(),
            "faults": faults,
            "n_faults": self.faults.len(),
            "first_chunks": chunks,
            "n_chunks": self.cuts.len() + 1,
            "restarts": self.restarts,
            "c04_targets": self.c04.len(),
            "outcome": outcome,
        })
    }
}

#[derive(Clone, Debug, Serialize, Deserialize, PartialEq)]
pub struct Violation {
    pub property: String,
    pub clause: String,
    pub detail: String,
}

impl Violation {
    pub fn new(property: &str, clause: &str, detail: String) -> Self {
        Violation { property: property.into(), clause: clause.into(), detail }
    }
}
