//! C12: history exploration with failure injection on the crate's only
//! stateful encoder object. A long-lived `MessageBuilder` receives a generated
//! sequence of operations; after every operation its result is compared with
//! the result of a fresh builder for the same operation.

use crate::rng::{Digest, Rng};
use crate::stats::Stats;
use crate::trace::{hex, Violation};
use crate::workload::{decode_exact, gen_frame, msg_numbers, panic_text, val_gen_for, GenSpec};
use rtcm_rs::msg::message::MsgNotSupportedT;
use rtcm_rs::msg::{BdsSigId, GalSigId, GloSigId, GpsSigId, NavicSigId, QzssSigId, SbasSigId};
use rtcm_rs::prelude::*;
use rtcm_rs::util::ArrayString;
use rtcm_rs::verif_hooks;
use serde::{Deserialize, Serialize};
use std::panic::{catch_unwind, AssertUnwindSafe};

#[derive(Clone, Debug, Serialize, Deserialize, PartialEq)]
#[serde(tag = "op")]
pub enum Op {
    /// build_message(decode(generated frame of `spec`))
    Build { spec: GenSpec },
    /// build_message of a message the encoder itself refuses part-way:
    /// how ∈ msm_sat0 | msm_mismatch | msm_dup_cell | text_long | glo_chan_low
    Refused { spec: GenSpec, how: String },
    /// build_message of a message without wire form: empty | corrupt | unsupported
    NoWire { which: String, n: u16 },
    /// build_message(decode(spec)) with the k-th Assembler::put failing (hook)
    Injected { spec: GenSpec, k: u64 },
    /// build_message of an MSM message with a full nsat x nsig cell matrix (cell mask of exactly
    /// nsat*nsig bits); header fields come from the decoded generated message of `spec`
    BuildMsm { spec: GenSpec, nsat: u8, nsig: u8 },
    /// build_message of a 1059 code-bias message with `nsat` satellites and `nbias` biases in all
    /// (64 x 390 is the largest frame the crate can emit: 1029 bytes)
    BuildBias { nsat: u8, nbias: u16 },
    /// build_generated_message on the same builder (judged under clause C12.g: same
    /// generator state => same frame as a fresh builder)
    Generated { spec: GenSpec },
    /// build_generated_message interrupted at the k-th put
    GeneratedInjected { spec: GenSpec, k: u64 },
}

#[derive(Clone, Debug, Serialize, Deserialize, PartialEq)]
pub struct BuilderTrace {
    pub property: String,
    pub seed: u64,
    pub run: u64,
    pub origin: String,
    pub ops: Vec<Op>,
    /// also compare the LAST op's result with a fresh builder in a pristine child process (state
    /// that the code under test keeps process-wide is shared by every builder of this process)
    #[serde(default, skip_serializing_if = "std::ops::Not::not")]
    pub pristine_reference: bool,
}

impl BuilderTrace {
    pub fn digest(&self) -> u64 {
        let mut d = Digest::new();
        d.push_str(&serde_json::to_string(&self.ops).unwrap_or_default());
        d.finish()
    }
    pub fn sample(&self, outcome: &str) -> serde_json::Value {
        let ops: Vec<String> = self.ops.iter().take(12).map(op_brief).collect();
        serde_json::json!({"run": self.run, "origin": self.origin, "n_ops": self.ops.len(), "ops": ops, "outcome": outcome})
    }
}

pub fn op_brief(op: &Op) -> String {
    match op {
        Op::Build { spec } => format!("build({})", spec.msg),
        Op::Refused { spec, how } => format!("refused({},{})", spec.msg, how),
        Op::NoWire { which, n } => format!("nowire({},{})", which, n),
        Op::Injected { spec, k } => format!("build({})!put#{}", spec.msg, k),
        Op::BuildMsm { spec, nsat, nsig } => format!("build_msm({},{}x{})", spec.msg, nsat, nsig),
        Op::BuildBias { nsat, nbias } => format!("build_1059({}sat,{}bias)", nsat, nbias),
        Op::Generated { spec } => format!("generated({})", spec.msg),
        Op::GeneratedInjected { spec, k } => format!("generated({})!put#{}", spec.msg, k),
    }
}

// ---------------------------------------------------------------------------
// message materialisation (real generator + real decoder on a scratch builder)
// ---------------------------------------------------------------------------

pub fn materialise(spec: &GenSpec) -> Option<Message> {
    let mut scratch = MessageBuilder::new();
    let f = gen_frame(&mut scratch, spec)?;
    let m = decode_exact(&f)?;
    match m {
        Message::Empty | Message::Corrupt | Message::MsgNotSupported(_) => None,
        m => Some(m),
    }
}

macro_rules! for_msm {
    ($m:expr, $t:ident => $body:block, $else:block) => {
        match $m {
            Message::Msg1071($t) => $body, Message::Msg1072($t) => $body, Message::Msg1073($t) => $body,
            Message::Msg1074($t) => $body, Message::Msg1075($t) => $body, Message::Msg1076($t) => $body,
            Message::Msg1077($t) => $body,
            Message::Msg1081($t) => $body, Message::Msg1082($t) => $body, Message::Msg1083($t) => $body,
            Message::Msg1084($t) => $body, Message::Msg1085($t) => $body, Message::Msg1086($t) => $body,
            Message::Msg1087($t) => $body,
            Message::Msg1091($t) => $body, Message::Msg1092($t) => $body, Message::Msg1093($t) => $body,
            Message::Msg1094($t) => $body, Message::Msg1095($t) => $body, Message::Msg1096($t) => $body,
            Message::Msg1097($t) => $body,
            Message::Msg1101($t) => $body, Message::Msg1102($t) => $body, Message::Msg1103($t) => $body,
            Message::Msg1104($t) => $body, Message::Msg1105($t) => $body, Message::Msg1106($t) => $body,
            Message::Msg1107($t) => $body,
            Message::Msg1111($t) => $body, Message::Msg1112($t) => $body, Message::Msg1113($t) => $body,
            Message::Msg1114($t) => $body, Message::Msg1115($t) => $body, Message::Msg1116($t) => $body,
            Message::Msg1117($t) => $body,
            Message::Msg1121($t) => $body, Message::Msg1122($t) => $body, Message::Msg1123($t) => $body,
            Message::Msg1124($t) => $body, Message::Msg1125($t) => $body, Message::Msg1126($t) => $body,
            Message::Msg1127($t) => $body,
            Message::Msg1131($t) => $body, Message::Msg1132($t) => $body, Message::Msg1133($t) => $body,
            Message::Msg1134($t) => $body, Message::Msg1135($t) => $body, Message::Msg1136($t) => $body,
            Message::Msg1137($t) => $body,
            _ => $else,
        }
    };
}

pub fn is_msm(n: u16) -> bool {
    (1071..=1137).contains(&n) && (n % 10) >= 1 && (n % 10) <= 7
}

/// turn a decoded message into one the encoder refuses part-way through
pub fn mutate(mut m: Message, how: &str) -> Option<Message> {
    match how {
        "msm_sat0" => {
            for_msm!(&mut m, t => {
                if t.data_segment.satellite_data.len() == 0 {
                    t.data_segment.satellite_data.push(Default::default());
                }
                t.data_segment.satellite_data[0].satellite_id = 0;
            }, { return None; });
            Some(m)
        }
        "msm_mismatch" => {
            for_msm!(&mut m, t => {
                if t.data_segment.satellite_data.len() == 0 {
                    return None;
                }
                t.data_segment.satellite_data.pop();
            }, { return None; });
            Some(m)
        }
        "msm_dup_cell" => {
            for_msm!(&mut m, t => {
                let n = t.data_segment.signal_data.len();
                if n == 0 || n >= 64 {
                    return None;
                }
                let c = t.data_segment.signal_data[n - 1].clone();
                t.data_segment.signal_data.push(c);
            }, { return None; });
            Some(m)
        }
        "text_long" => match &mut m {
            Message::Msg1029(t) => {
                let s: String = std::iter::repeat('a').take(130).collect();
                t.text_str = ArrayString::from(s.as_str());
                Some(m)
            }
            _ => None,
        },
        "glo_chan_low" => {
            match &mut m {
                Message::Msg1009(t) => {
                    if t.satellites.len() == 0 {
                        t.satellites.push(Default::default());
                    }
                    let n = t.satellites.len();
                    t.satellites[n - 1].glo_satellite_freq_chan_number = -8;
                }
                Message::Msg1010(t) => {
                    if t.satellites.len() == 0 {
                        t.satellites.push(Default::default());
                    }
                    let n = t.satellites.len();
                    t.satellites[n - 1].glo_satellite_freq_chan_number = -8;
                }
                Message::Msg1011(t) => {
                    if t.satellites.len() == 0 {
                        t.satellites.push(Default::default());
                    }
                    let n = t.satellites.len();
                    t.satellites[n - 1].glo_satellite_freq_chan_number = -8;
                }
                Message::Msg1012(t) => {
                    if t.satellites.len() == 0 {
                        t.satellites.push(Default::default());
                    }
                    let n = t.satellites.len();
                    t.satellites[n - 1].glo_satellite_freq_chan_number = -8;
                }
                Message::Msg1020(t) => {
                    t.glo_satellite_freq_chan_number = -8;
                }
                _ => return None,
            }
            Some(m)
        }
        _ => None,
    }
}

/// number of draws the generator makes on the field stream for `spec`
pub fn count_field_draws(spec: &GenSpec) -> u32 {
    let mut scratch = MessageBuilder::new();
    let mut vg = val_gen_for(spec);
    let _ = catch_unwind(AssertUnwindSafe(|| {
        let _ = scratch.build_generated_message(&mut vg, spec.msg);
    }));
    vg.field_rng.draws
}

/// two (or three) builds of one message type whose values differ in exactly one field draw
/// (all-zero vs all-one pattern), or in two draws with swapped values: what a cache keyed on
/// a weak digest of the message / payload cannot tell apart
pub fn toggle_ops(base: &GenSpec, j: u32, swapped: bool) -> Vec<Op> {
    let with = |f: Vec<(u32, u64)>| -> GenSpec {
        let mut s = base.clone();
        s.force = f;
        s
    };
    if swapped {
        vec![
            Op::Build { spec: with(vec![(j, 0x5A5A_5A5A_5A5A_5A5A), (j + 2, 0xA5A5_A5A5_A5A5_A5A5)]) },
            Op::Build { spec: with(vec![(j, 0xA5A5_A5A5_A5A5_A5A5), (j + 2, 0x5A5A_5A5A_5A5A_5A5A)]) },
        ]
    } else {
        vec![Op::Build { spec: with(vec![(j, 0)]) }, Op::Build { spec: with(vec![(j, u64::MAX)]) }, Op::Build { spec: with(vec![(j, 0)]) }]
    }
}

/// MSM message `spec.msg` with satellites 1..=nsat and, for each, cells for the same nsig signals:
/// a full matrix, so the cell mask is exactly nsat*nsig bits wide. Header fields and element
/// prototypes come from the decoded generated message of `spec`.
pub fn msm_shape(spec: &GenSpec, nsat: u8, nsig: u8) -> Option<Message> {
    if nsat == 0 || nsig == 0 || (nsat as usize) * (nsig as usize) > 64 {
        return None;
    }
    let mut template: Option<Message> = None;
    for k in 0..32u64 {
        let mut sp = spec.clone();
        sp.gen_seed = spec.gen_seed.wrapping_add(k.wrapping_mul(0x9E37_79B9));
        sp.force.clear();
        if let Some(m) = materialise(&sp) {
            let mut usable = false;
            for_msm!(&m, t => {
                usable = t.data_segment.signal_data.len() > 0 && t.data_segment.satellite_data.len() > 0;
            }, { return None; });
            if usable {
                template = Some(m);
                break;
            }
        }
    }
    let mut m = template?;
    macro_rules! shape {
        ($t:ident, $sig:ty) => {{
            let mut sigs: Vec<$sig> = Vec::new();
            'outer: for band in 1u8..=9 {
                for attr in 'A'..='Z' {
                    let sid = <$sig>::new(band, attr);
                    if sid.is_valid() {
                        sigs.push(sid);
                        if sigs.len() >= nsig as usize {
                            break 'outer;
                        }
                    }
                }
            }
            if sigs.len() < nsig as usize {
                return None;
            }
            let sat_proto = $t.data_segment.satellite_data[0].clone();
            let cell_proto = $t.data_segment.signal_data[0].clone();
            $t.data_segment.satellite_data.clear();
            $t.data_segment.signal_data.clear();
            for sid in 1..=nsat {
                let mut s = sat_proto.clone();
                s.satellite_id = sid;
                $t.data_segment.satellite_data.push(s);
                for g in 0..nsig as usize {
                    let mut c = cell_proto.clone();
                    c.satellite_id = sid;
                    c.signal_id = sigs[g];
                    $t.data_segment.signal_data.push(c);
                }
            }
        }};
    }
    match &mut m {
        Message::Msg1071(t) => shape!(t, GpsSigId), Message::Msg1072(t) => shape!(t, GpsSigId), Message::Msg1073(t) => shape!(t, GpsSigId),
        Message::Msg1074(t) => shape!(t, GpsSigId), Message::Msg1075(t) => shape!(t, GpsSigId), Message::Msg1076(t) => shape!(t, GpsSigId),
        Message::Msg1077(t) => shape!(t, GpsSigId),
        Message::Msg1081(t) => shape!(t, GloSigId), Message::Msg1082(t) => shape!(t, GloSigId), Message::Msg1083(t) => shape!(t, GloSigId),
        Message::Msg1084(t) => shape!(t, GloSigId), Message::Msg1085(t) => shape!(t, GloSigId), Message::Msg1086(t) => shape!(t, GloSigId),
        Message::Msg1087(t) => shape!(t, GloSigId),
        Message::Msg1091(t) => shape!(t, GalSigId), Message::Msg1092(t) => shape!(t, GalSigId), Message::Msg1093(t) => shape!(t, GalSigId),
        Message::Msg1094(t) => shape!(t, GalSigId), Message::Msg1095(t) => shape!(t, GalSigId), Message::Msg1096(t) => shape!(t, GalSigId),
        Message::Msg1097(t) => shape!(t, GalSigId),
        Message::Msg1101(t) => shape!(t, SbasSigId), Message::Msg1102(t) => shape!(t, SbasSigId), Message::Msg1103(t) => shape!(t, SbasSigId),
        Message::Msg1104(t) => shape!(t, SbasSigId), Message::Msg1105(t) => shape!(t, SbasSigId), Message::Msg1106(t) => shape!(t, SbasSigId),
        Message::Msg1107(t) => shape!(t, SbasSigId),
        Message::Msg1111(t) => shape!(t, QzssSigId), Message::Msg1112(t) => shape!(t, QzssSigId), Message::Msg1113(t) => shape!(t, QzssSigId),
        Message::Msg1114(t) => shape!(t, QzssSigId), Message::Msg1115(t) => shape!(t, QzssSigId), Message::Msg1116(t) => shape!(t, QzssSigId),
        Message::Msg1117(t) => shape!(t, QzssSigId),
        Message::Msg1121(t) => shape!(t, BdsSigId), Message::Msg1122(t) => shape!(t, BdsSigId), Message::Msg1123(t) => shape!(t, BdsSigId),
        Message::Msg1124(t) => shape!(t, BdsSigId), Message::Msg1125(t) => shape!(t, BdsSigId), Message::Msg1126(t) => shape!(t, BdsSigId),
        Message::Msg1127(t) => shape!(t, BdsSigId),
        Message::Msg1131(t) => shape!(t, NavicSigId), Message::Msg1132(t) => shape!(t, NavicSigId), Message::Msg1133(t) => shape!(t, NavicSigId),
        Message::Msg1134(t) => shape!(t, NavicSigId), Message::Msg1135(t) => shape!(t, NavicSigId), Message::Msg1136(t) => shape!(t, NavicSigId),
        Message::Msg1137(t) => shape!(t, NavicSigId),
        _ => return None,
    }
    Some(m)
}

/// typed 1059 message with `nsat` satellites and `nbias` code biases spread round-robin over them;
/// header fields from a decoded generated 1059, signal ids collected from decoded generated ones
pub fn bias_shape(nsat: u8, nbias: u16) -> Option<Message> {
    if nsat == 0 || nsat > 64 || nbias as usize > 390 || (nbias as usize) < nsat as usize {
        return None;
    }
    let mut sigs: Vec<GpsSigId> = Vec::new();
    let mut template: Option<Message> = None;
    for k in 0..48u64 {
        let sp = GenSpec { msg: 1059, gen_seed: 0x1059 + k, p_len_max: 0.3, p_field_max: 0.0, force: Vec::new() };
        if let Some(Message::Msg1059(t)) = materialise(&sp) {
            for b in t.biases.iter() {
                if !sigs.contains(&b.signal_id) {
                    sigs.push(b.signal_id);
                }
            }
            if template.is_none() {
                template = Some(Message::Msg1059(t));
            }
        }
        if sigs.len() >= 12 {
            break;
        }
    }
    let per_sat = (nbias as usize + nsat as usize - 1) / nsat as usize;
    if per_sat > sigs.len() {
        return None;
    }
    let mut m = template?;
    if let Message::Msg1059(t) = &mut m {
        t.biases.clear();
        for i in 0..nbias as usize {
            let sat = (i % nsat as usize) as u8; // 1059 satellite ids are 0..=63
            let sig = sigs[i / nsat as usize];
            t.biases.push(rtcm_rs::msg::Msg1059CodeBias { satellite_id: sat, signal_id: sig, bias_m: -0.01 * (1 + (i % 7)) as f32 });
        }
    }
    Some(m)
}

pub fn refusal_kinds_for(n: u16) -> &'static [&'static str] {
    if is_msm(n) {
        &["msm_sat0", "msm_mismatch", "msm_dup_cell"]
    } else if n == 1029 {
        &["text_long"]
    } else if (1009..=1012).contains(&n) || n == 1020 {
        &["glo_chan_low"]
    } else {
        &[]
    }
}

// ---------------------------------------------------------------------------
// executing one operation on one builder
// ---------------------------------------------------------------------------

#[derive(Clone, Debug, PartialEq)]
pub enum Outcome {
    Frame(Vec<u8>),
    Error(String),
    Panic(String),
    /// operation could not be materialised on this tree (skipped on both sides)
    Skip,
}

impl Outcome {
    fn class(&self) -> &'static str {
        match self {
            Outcome::Frame(_) => "ok",
            Outcome::Error(_) => "err",
            Outcome::Panic(_) => "panic",
            Outcome::Skip => "skip",
        }
    }
}

thread_local! {
    /// bits offered to `put` during the most recent guarded build on this thread
    static LAST_BITS: std::cell::Cell<u64> = std::cell::Cell::new(0);
}

fn guarded_build(b: &mut MessageBuilder, m: &Message, k: u64) -> (Outcome, u64) {
    verif_hooks::arm_put_failure(k);
    let r = catch_unwind(AssertUnwindSafe(|| b.build_message(m).map(|f| f.to_vec()).map_err(|e| format!("{:?}", e))));
    LAST_BITS.with(|c| c.set(verif_hooks::bits_put()));
    let puts = verif_hooks::disarm();
    assert!(!verif_hooks::is_armed());
    (
        match r {
            Ok(Ok(f)) => Outcome::Frame(f),
            Ok(Err(e)) => Outcome::Error(e),
            Err(e) => Outcome::Panic(panic_text(&e)),
        },
        puts,
    )
}

fn guarded_generate(b: &mut MessageBuilder, spec: &GenSpec, k: u64) -> (Outcome, u64) {
    let mut vg = val_gen_for(spec);
    verif_hooks::arm_put_failure(k);
    let r = catch_unwind(AssertUnwindSafe(|| b.build_generated_message(&mut vg, spec.msg).map(|f| f.to_vec()).map_err(|e| format!("{:?}", e))));
    LAST_BITS.with(|c| c.set(verif_hooks::bits_put()));
    let puts = verif_hooks::disarm();
    (
        match r {
            Ok(Ok(f)) => Outcome::Frame(f),
            Ok(Err(e)) => Outcome::Error(e),
            Err(e) => Outcome::Panic(panic_text(&e)),
        },
        puts,
    )
}

/// message an op wants to build (None: op has no typed message or cannot be materialised)
pub fn op_message(op: &Op) -> Option<Message> {
    match op {
        Op::Build { spec } | Op::Injected { spec, .. } => materialise(spec),
        Op::Refused { spec, how } => materialise(spec).and_then(|m| mutate(m, how)),
        Op::BuildMsm { spec, nsat, nsig } => msm_shape(spec, *nsat, *nsig),
        Op::BuildBias { nsat, nbias } => bias_shape(*nsat, *nbias),
        Op::NoWire { which, n } => Some(match which.as_str() {
            "empty" => Message::Empty,
            "corrupt" => Message::Corrupt,
            _ => Message::MsgNotSupported(MsgNotSupportedT { message_number: *n }),
        }),
        _ => None,
    }
}

/// number of puts a clean build of `m` performs (0 if it panics)
pub fn count_puts(m: &Message) -> u64 {
    let mut b = MessageBuilder::new();
    let (_, puts) = guarded_build(&mut b, m, 0);
    puts
}

pub fn run_op(b: &mut MessageBuilder, op: &Op, msg: &Option<Message>) -> (Outcome, u64) {
    match op {
        Op::Build { .. } | Op::Refused { .. } | Op::NoWire { .. } | Op::BuildMsm { .. } | Op::BuildBias { .. } => match msg {
            Some(m) => guarded_build(b, m, 0),
            None => (Outcome::Skip, 0),
        },
        Op::Injected { k, .. } => match msg {
            Some(m) => guarded_build(b, m, *k),
            None => (Outcome::Skip, 0),
        },
        Op::Generated { spec } => guarded_generate(b, spec, 0),
        Op::GeneratedInjected { spec, k } => guarded_generate(b, spec, *k),
    }
}

/// child side of the pristine-process reference: run ONE op on a fresh builder, print the outcome
pub fn fresh_op_child(json: &str) -> i32 {
    let op: Op = match serde_json::from_str(json) {
        Ok(o) => o,
        Err(e) => {
            println!("bad {}", e);
            return 2;
        }
    };
    let msg = op_message(&op);
    let mut b = MessageBuilder::new();
    let (o, _) = run_op(&mut b, &op, &msg);
    match o {
        Outcome::Frame(f) => println!("frame {}", hex(&f)),
        Outcome::Error(e) => println!("error {}", e),
        Outcome::Panic(e) => println!("panic {}", e.replace('\n', " ")),
        Outcome::Skip => println!("skip"),
    }
    0
}

fn print_outcome(o: &Outcome) {
    match o {
        Outcome::Frame(f) => println!("frame {}", hex(f)),
        Outcome::Error(e) => println!("error {}", e),
        Outcome::Panic(e) => println!("panic {}", e.replace('\n', " ")),
        Outcome::Skip => println!("skip"),
    }
}

/// child: run a whole history (JSON list of ops on stdin) on ONE builder in this fresh process and
/// print "<index> <outcome>" of the last operation that was not skipped
pub fn history_child() -> i32 {
    let mut json = String::new();
    if std::io::Read::read_to_string(&mut std::io::stdin(), &mut json).is_err() {
        return 2;
    }
    let ops: Vec<Op> = match serde_json::from_str(&json) {
        Ok(o) => o,
        Err(e) => {
            println!("bad {}", e);
            return 2;
        }
    };
    let mut b = MessageBuilder::new();
    let mut last: Option<(usize, Outcome)> = None;
    for (i, op) in ops.iter().enumerate() {
        let msg = op_message(op);
        let (o, _) = run_op(&mut b, op, &msg);
        if o != Outcome::Skip {
            last = Some((i, o));
        }
    }
    match last {
        Some((i, o)) => {
            print!("{} ", i);
            print_outcome(&o);
        }
        None => println!("0 skip"),
    }
    0
}

fn parse_outcome(line: &str) -> Option<Outcome> {
    if let Some(h) = line.strip_prefix("frame ") {
        let h = h.trim();
        if h.len() % 2 != 0 {
            return None;
        }
        let mut v = Vec::with_capacity(h.len() / 2);
        for i in 0..h.len() / 2 {
            v.push(u8::from_str_radix(&h[2 * i..2 * i + 2], 16).ok()?);
        }
        Some(Outcome::Frame(v))
    } else if let Some(e) = line.strip_prefix("error ") {
        Some(Outcome::Error(e.to_string()))
    } else if let Some(e) = line.strip_prefix("panic ") {
        Some(Outcome::Panic(e.to_string()))
    } else if line == "skip" {
        Some(Outcome::Skip)
    } else {
        None
    }
}

/// the history run in a pristine child: (index of the last non-skipped op, its outcome)
pub fn history_outcome(ops: &[Op]) -> Option<(usize, Outcome)> {
    use std::io::Write;
    let json = serde_json::to_string(ops).ok()?;
    let exe = std::env::current_exe().ok()?;
    let mut child = std::process::Command::new(exe).args(["judge-history", "-"]).stdin(std::process::Stdio::piped()).stdout(std::process::Stdio::piped()).stderr(std::process::Stdio::null()).spawn().ok()?;
    child.stdin.take()?.write_all(json.as_bytes()).ok()?;
    let out = child.wait_with_output().ok()?;
    if !out.status.success() {
        return None;
    }
    let text = String::from_utf8_lossy(&out.stdout);
    let line = text.lines().next()?.trim().to_string();
    let (idx, rest) = line.split_once(' ')?;
    Some((idx.parse().ok()?, parse_outcome(rest)?))
}

fn show_outcome(o: &Outcome) -> String {
    match o {
        Outcome::Frame(f) => format!("frame [{}..] ({} bytes)", hex(&f[..f.len().min(16)]), f.len()),
        Outcome::Error(e) | Outcome::Panic(e) => e.clone(),
        Outcome::Skip => "skip".into(),
    }
}

/// history in one pristine child vs. its last op on a fresh builder in another pristine child
pub fn isolated_verdict(trace: &BuilderTrace) -> Option<Violation> {
    let (i, got) = history_outcome(&trace.ops)?;
    let op = trace.ops.get(i)?;
    let want = pristine_outcome(op)?;
    let same = match (&got, &want) {
        (Outcome::Panic(_), Outcome::Panic(_)) => true,
        (a, b) => a == b,
    };
    if same || want == Outcome::Skip {
        return None;
    }
    Some(Violation::new(
        "C12",
        if is_generated(op) { "C12.g" } else if matches!((&got, &want), (Outcome::Frame(_), Outcome::Frame(_))) { "C12.a" } else { "C12.b" },
        format!(
            "op #{} {}: a builder that ran this history of {} operations in a fresh process gives {}, a fresh builder in a fresh process gives {}{}",
            i,
            op_brief(op),
            trace.ops.len(),
            show_outcome(&got),
            show_outcome(&want),
            match (&got, &want) {
                (Outcome::Frame(a), Outcome::Frame(b)) => format!(" ({})", first_diff(a, b)),
                _ => String::new(),
            }
        ),
    ))
}

/// operations this PROCESS has executed in earlier runs (all worker threads, in arrival order):
/// the first ones and the most recent ones. Only used to reconstruct a replayable witness after
/// process-wide state has been detected; never influences a verdict on a clean tree.
static PAST_HEAD: std::sync::Mutex<Vec<Op>> = std::sync::Mutex::new(Vec::new());
static PAST_RECENT: std::sync::Mutex<std::collections::VecDeque<Op>> = std::sync::Mutex::new(std::collections::VecDeque::new());

pub fn remember_ops(ops: &[Op]) {
    if let Ok(mut h) = PAST_HEAD.lock() {
        for op in ops {
            if h.len() >= 600 {
                break;
            }
            h.push(op.clone());
        }
    }
    if let Ok(mut q) = PAST_RECENT.lock() {
        for op in ops.iter().rev().take(600).rev() {
            q.push_back(op.clone());
            if q.len() > 600 {
                q.pop_front();
            }
        }
    }
}

/// Is THIS (long-running) process polluted relative to a pristine one? A fresh builder here and a
/// fresh builder in a pristine child must agree on the trace's last operation. If they do not, the
/// code under test keeps process-wide state; a replayable witness is reconstructed from what this
/// worker thread executed before (first and most recent operations) + the operation.
pub fn pollution_check(trace: &BuilderTrace) -> Option<(Violation, BuilderTrace)> {
    let op = trace.ops.last()?;
    let msg = op_message(op);
    let mut fresh = MessageBuilder::new();
    let (here, _) = run_op(&mut fresh, op, &msg);
    if here == Outcome::Skip {
        return None;
    }
    let want = pristine_outcome(op)?;
    let same = match (&here, &want) {
        (Outcome::Panic(_), Outcome::Panic(_)) => true,
        (a, b) => a == b,
    };
    if same {
        return None;
    }
    let mut ops: Vec<Op> = PAST_HEAD.lock().map(|h| h.clone()).unwrap_or_default();
    if let Ok(q) = PAST_RECENT.lock() {
        ops.extend(q.iter().cloned());
    }
    ops.extend(trace.ops.iter().cloned());
    let cand = BuilderTrace { property: "C12".into(), seed: trace.seed, run: trace.run, origin: format!("reconstructed_past+{}", trace.origin), ops, pristine_reference: true };
    if let Some(v) = isolated_verdict(&cand) {
        return Some((v, cand));
    }
    Some((
        Violation::new(
            "C12",
            "C12.a",
            format!(
                "{}: a fresh builder in this long-running worker gives {}, a fresh builder in a pristine process gives {} - the code under test keeps state outside the builder; no replayable witness could be reconstructed from the worker's recorded past",
                op_brief(op),
                show_outcome(&here),
                show_outcome(&want)
            ),
        ),
        trace.clone(),
    ))
}

/// parent side: None when the child cannot be spawned or answers nonsense (then no verdict)
pub fn pristine_outcome(op: &Op) -> Option<Outcome> {
    let json = serde_json::to_string(op).ok()?;
    let exe = std::env::current_exe().ok()?;
    let out = std::process::Command::new(exe).args(["fresh-op", &json]).output().ok()?;
    if !out.status.success() {
        return None;
    }
    let text = String::from_utf8_lossy(&out.stdout);
    let line = text.lines().next()?.trim().to_string();
    parse_outcome(&line)
}

pub fn is_judged(_op: &Op) -> bool {
    true
}

fn is_generated(op: &Op) -> bool {
    matches!(op, Op::Generated { .. } | Op::GeneratedInjected { .. })
}

// ---------------------------------------------------------------------------
// judge
// ---------------------------------------------------------------------------

fn first_diff(a: &[u8], b: &[u8]) -> String {
    if a.len() != b.len() {
        return format!("lengths differ: {} vs {}", a.len(), b.len());
    }
    for (i, (x, y)) in a.iter().zip(b.iter()).enumerate() {
        if x != y {
            return format!("first difference at byte {} of {}: {:02x} vs {:02x}", i, a.len(), x, y);
        }
    }
    "identical".into()
}

pub fn judge_builder(trace: &BuilderTrace, mut stats: Option<&mut Stats>) -> Option<Violation> {
    // Isolated verdict first (pristine-flagged histories): it is a function of the trace alone, so a
    // violation found here reads the same in the batch process, in the minimiser and in a replay.
    // State the code under test keeps process-wide (lazily filled tables, "first time only"
    // latches) is shared by every builder of THIS process, fresh ones included, and this process
    // has a past; so one child process runs the whole history on one builder, another runs the
    // last operation on a fresh builder; both start pristine.
    if trace.pristine_reference && !trace.ops.is_empty() {
        if let Some(st) = stats.as_deref_mut() {
            st.probe("c12_pristine_process_reference");
            st.oracle_evals += 1;
        }
        if let Some(v) = isolated_verdict(trace) {
            return Some(v);
        }
    }
    let mut long = MessageBuilder::new();
    let mut sig = Digest::new();
    // abstract builder state: (has_run, last outcome class, last written extent class)
    let mut has_run = false;
    let mut last_class: u64 = 0;
    let mut last_extent: usize = 0;
    let mut evals = 0u64;
    let mut classes_seen: Vec<&'static str> = Vec::new();
    // Reference results computed BEFORE the history and in reverse order, each with its own fresh
    // builder: if the code under test ever kept state outside the builder (a process-wide or
    // thread-local cache), a fresh builder consulted right after the reused one would share that
    // state and agree with it; this earlier, differently ordered pass would not.
    let n_pre = trace.ops.len().min(64);
    let mut want_pre: Vec<Option<Outcome>> = vec![None; trace.ops.len()];
    for i in (0..n_pre).rev() {
        let op = &trace.ops[i];
        let msg = op_message(op);
        let mut fresh = MessageBuilder::new();
        let (w, _) = run_op(&mut fresh, op, &msg);
        want_pre[i] = Some(w);
    }
    let mut last_got: Option<(usize, Outcome)> = None;
    for (i, op) in trace.ops.iter().enumerate() {
        let msg = op_message(op);
        let (got, puts) = run_op(&mut long, op, &msg);
        if got != Outcome::Skip {
            last_got = Some((i, got.clone()));
        }
        if let Some(Some(w)) = want_pre.get(i) {
            evals += 1;
            let same = match (&got, w) {
                (Outcome::Panic(_), Outcome::Panic(_)) => true,
                (a, b) => a == b,
            };
            if !same && got != Outcome::Skip {
                return Some(Violation::new(
                    "C12",
                    if is_generated(op) { "C12.g" } else if matches!((&got, w), (Outcome::Frame(_), Outcome::Frame(_))) { "C12.a" } else { "C12.b" },
                    format!(
                        "op #{} {}: reused builder (history: {}) gives {} but a fresh builder asked BEFORE this history started gave {}",
                        i,
                        op_brief(op),
                        trace.ops[..i].iter().rev().take(3).map(op_brief).collect::<Vec<_>>().join(" <- "),
                        match &got {
                            Outcome::Frame(f) => format!("frame [{}..] ({} bytes)", hex(&f[..f.len().min(12)]), f.len()),
                            Outcome::Error(e) | Outcome::Panic(e) => e.clone(),
                            Outcome::Skip => "skip".into(),
                        },
                        match w {
                            Outcome::Frame(f) => format!("frame [{}..] ({} bytes)", hex(&f[..f.len().min(12)]), f.len()),
                            Outcome::Error(e) | Outcome::Panic(e) => e.clone(),
                            Outcome::Skip => "skip".into(),
                        }
                    ),
                ));
            }
        }
        let mut outcome_class: u64 = match &got {
            Outcome::Frame(_) => 1,
            Outcome::Error(_) => 2,
            Outcome::Panic(_) => 3,
            Outcome::Skip => 4,
        };
        if let (Op::Injected { k, .. } | Op::GeneratedInjected { k, .. }, Outcome::Error(_)) = (op, &got) {
            // early / mid / late crash point
            let n = puts.max(1);
            outcome_class = 5 + if *k <= 2 { 0 } else if *k + 1 >= n { 2 } else { 1 };
        }
        if let (Op::Refused { how, .. }, Outcome::Error(_)) = (op, &got) {
            outcome_class = if how == "glo_chan_low" { 9 } else { 8 };
        }
        if let (Op::NoWire { .. }, Outcome::Error(_)) = (op, &got) {
            outcome_class = 10;
        }
        if is_judged(op) && got != Outcome::Skip {
            let mut fresh = MessageBuilder::new();
            let (want, _) = run_op(&mut fresh, op, &msg);
            evals += 2;
            // padding bits of the last payload byte (where stale data would show)
            let pad_bits = match &want {
                Outcome::Frame(_) => (8 - LAST_BITS.with(|c| c.get()) % 8) % 8,
                _ => 8,
            };
            match (&got, &want) {
                (Outcome::Frame(a), Outcome::Frame(b)) => {
                    if a != b {
                        return Some(Violation::new(
                            "C12",
                            if is_generated(op) { "C12.g" } else { "C12.a" },
                            format!(
                                "op #{} {}: reused builder (history: {}) produced a frame that differs from a fresh builder's: {}; reused [{}] fresh [{}]",
                                i,
                                op_brief(op),
                                trace.ops[..i].iter().rev().take(3).map(op_brief).collect::<Vec<_>>().join(" <- "),
                                first_diff(a, b),
                                hex(&a[..a.len().min(16)]),
                                hex(&b[..b.len().min(16)])
                            ),
                        ));
                    }
                }
                (Outcome::Error(a), Outcome::Error(b)) => {
                    if a != b {
                        return Some(Violation::new("C12", if is_generated(op) { "C12.g" } else { "C12.b" }, format!("op #{} {}: reused builder fails with {}, fresh builder with {}", i, op_brief(op), a, b)));
                    }
                }
                (Outcome::Panic(_), Outcome::Panic(_)) => {
                    if let Some(st) = stats.as_deref_mut() {
                        st.oos("encoder_panic_on_both_builders(C09)");
                    }
                }
                (a, b) => {
                    return Some(Violation::new(
                        "C12",
                        if is_generated(op) { "C12.g" } else { "C12.b" },
                        format!(
                            "op #{} {}: reused builder outcome {} ({}) but fresh builder outcome {} ({})",
                            i,
                            op_brief(op),
                            a.class(),
                            match a {
                                Outcome::Error(e) | Outcome::Panic(e) => e.clone(),
                                Outcome::Frame(f) => format!("{} bytes", f.len()),
                                Outcome::Skip => String::new(),
                            },
                            b.class(),
                            match b {
                                Outcome::Error(e) | Outcome::Panic(e) => e.clone(),
                                Outcome::Frame(f) => format!("{} bytes", f.len()),
                                Outcome::Skip => String::new(),
                            }
                        ),
                    ))
                }
            }
            if let Some(st) = stats.as_deref_mut() {
                // abstract (state, target) pair reached
                let tgt_len = match &want {
                    Outcome::Frame(f) => f.len(),
                    _ => 0,
                };
                let tgt_class: u64 = match tgt_len {
                    0 => 0,
                    1..=20 => 1,
                    21..=100 => 2,
                    101..=500 => 3,
                    _ => 4,
                };
                let ext: u64 = if !has_run { 0 } else if last_extent < tgt_len { 1 } else { 2 };
                let mut d = Digest::new();
                d.push(has_run as u64);
                d.push(last_class);
                d.push(ext);
                st.abs_states.insert(d.finish());
                d.push(tgt_class);
                d.push(pad_bits);
                d.push(outcome_class);
                st.abs_transitions.insert(d.finish());
                if has_run {
                    match (last_class, &want) {
                        (2 | 5..=10, Outcome::Frame(_)) => st.probe("c12_fail_then_ok"),
                        (1, Outcome::Frame(f)) if last_extent > f.len() => st.probe("c12_long_then_short"),
                        (1, Outcome::Frame(f)) if last_extent < f.len() => st.probe("c12_short_then_long"),
                        _ => {}
                    }
                    if (5..=7).contains(&last_class) {
                        if let Outcome::Frame(f) = &want {
                            if last_extent > f.len() {
                                st.probe("c12_injected_fail_deeper_than_next_frame");
                            }
                        }
                    }
                }
                if tgt_len == 1029 {
                    st.probe("c12_max_length_frame_target");
                }
                if (1..=7).contains(&pad_bits) {
                    st.probe("c12_padding_bits_1to7");
                } else if pad_bits == 0 {
                    st.probe("c12_padding_bits_0");
                }
            }
        }
        if let Some(st) = stats.as_deref_mut() {
            match op {
                Op::Injected { k, .. } | Op::GeneratedInjected { k, .. } => {
                    if matches!(got, Outcome::Error(_)) {
                        st.fault("put_fail");
                        if *k == 1 {
                            st.probe("c12_injected_fail_at_first_put");
                        }
                        if puts > 0 && *k == puts {
                            st.probe("c12_injected_fail_at_reached_put");
                        }
                        if *k > 100 {
                            st.probe("c12_injected_fail_after_100_puts");
                        }
                    } else {
                        st.probe("c12_injected_k_beyond_build");
                    }
                }
                Op::Refused { how, .. } => {
                    if matches!(got, Outcome::Error(_)) {
                        st.fault("natural_fail");
                        st.fault(&format!("natural_fail:{}", how));
                    } else {
                        st.probe("c12_refusal_did_not_fail");
                    }
                }
                Op::NoWire { .. } => {
                    st.fault("natural_fail");
                    st.fault("natural_fail:no_wire_form");
                }
                _ => {}
            }
        }
        sig.push(outcome_class);
        sig.push(match &got {
            Outcome::Frame(f) => 1 + (f.len() as u64) / 64,
            _ => 0,
        });
        if !classes_seen.contains(&got.class()) {
            classes_seen.push(got.class());
        }
        // extent written by this op: frame length, or (for failures) unknown ->
        // approximate by puts*? ; we use the put count as a monotone proxy in bytes
        last_extent = match &got {
            Outcome::Frame(f) => f.len(),
            _ => (puts as usize) * 2,
        };
        last_class = outcome_class;
        has_run = true;
    }
    if let Some(st) = stats {
        st.oracle_evals += evals;
        st.runs += 1;
        let nontrivial = trace.ops.len() >= 2 && classes_seen.len() >= 1 && trace.ops.iter().filter(|o| is_judged(o)).count() >= 1;
        if nontrivial && (classes_seen.len() >= 2 || trace.ops.len() >= 2) {
            st.nontrivial_runs += 1;
            st.signatures.insert(sig.finish());
        }
    }
    None
}

// ---------------------------------------------------------------------------
// generation
// ---------------------------------------------------------------------------

fn draw_spec(r: &mut Rng, subset: &[u16], p_len_max: f64, p_field_max: f64) -> GenSpec {
    GenSpec { msg: *r.pick(subset), gen_seed: r.next(), p_len_max, p_field_max, force: Vec::new() }
}

/// a spec whose message materialises, or None after a few attempts
fn good_spec(r: &mut Rng, subset: &[u16], p_len_max: f64, p_field_max: f64) -> Option<(GenSpec, Message)> {
    for _ in 0..4 {
        let s = draw_spec(r, subset, p_len_max, p_field_max);
        if let Some(m) = materialise(&s) {
            return Some((s, m));
        }
    }
    None
}

const LONG_TYPES: [u16; 10] = [1004, 1012, 1077, 1087, 1097, 1127, 1117, 1068, 1066, 1062];
const SHORT_TYPES: [u16; 10] = [1005, 1006, 1013, 1029, 1230, 1007, 1033, 1008, 1019, 1020];

pub fn gen_builder_trace(master: u64, run: u64) -> BuilderTrace {
    let seed = crate::rng::run_seed(master ^ 0xC12C12, run);
    let root = Rng::from_seed(seed);
    let mut r = root.fork("ops");
    let all = msg_numbers();
    let have = |n: &u16| all.contains(n);
    let long_types: Vec<u16> = LONG_TYPES.iter().copied().filter(|n| have(n)).collect();
    let short_types: Vec<u16> = SHORT_TYPES.iter().copied().filter(|n| have(n)).collect();
    let refusable: Vec<u16> = all.iter().copied().filter(|n| !refusal_kinds_for(*n).is_empty()).collect();
    // swarm
    let subset: Vec<u16> = match r.below(4) {
        0 => all.to_vec(),
        1 => (0..r.range(1, 4)).map(|_| *r.pick(all)).collect(),
        2 => {
            let mut v = long_types.clone();
            v.extend_from_slice(&short_types);
            if v.is_empty() {
                all.to_vec()
            } else {
                v
            }
        }
        _ => (0..r.range(5, 25)).map(|_| *r.pick(all)).collect(),
    };
    let p_len_max = *r.pick(&[0.0, 0.0, 0.1, 0.5, 1.0]);
    let p_field_max = *r.pick(&[0.0, 0.0, 0.01, 0.2]);
    let mut n_ops = (1 + r.geometric(4.0) as usize).min(40).max(2);
    // rare long histories (own sub-stream): "something that only happens on the N-th use"
    let mut lr = root.fork("long_history");
    if lr.chance(0.01) {
        n_ops = lr.range(200, 700) as usize;
    }
    let w_build = 6u64;
    let w_refused = if r.chance(0.8) { 2 } else { 0 };
    let w_nowire = if r.chance(0.6) { 1 } else { 0 };
    let w_injected = if r.chance(0.85) { 4 } else { 0 };
    let w_generated = if r.chance(0.5) { 2 } else { 0 };
    let w_geninj = if r.chance(0.4) { 1 } else { 0 };
    let total = w_build + w_refused + w_nowire + w_injected + w_generated + w_geninj;
    let shape = r.below(7); // biased history shapes
    let mut ops: Vec<Op> = Vec::new();
    let pick_injected = |r: &mut Rng, subset: &[u16]| -> Option<Op> {
        let (spec, m) = good_spec(r, subset, p_len_max, p_field_max)?;
        let n = count_puts(&m).max(1);
        let k = match r.below(8) {
            0 => 1,
            1 => 2.min(n),
            2 => n,
            3 => n.saturating_sub(1).max(1),
            4 => n.saturating_sub(2).max(1),
            _ => r.range(1, n),
        };
        Some(Op::Injected { spec, k })
    };
    let pick_refused = |r: &mut Rng| -> Option<Op> {
        if refusable.is_empty() {
            return None;
        }
        for _ in 0..4 {
            let n = *r.pick(&refusable);
            let spec = GenSpec { msg: n, gen_seed: r.next(), p_len_max, p_field_max, force: Vec::new() };
            let how = *r.pick(refusal_kinds_for(n));
            if let Some(m) = materialise(&spec) {
                if mutate(m, how).is_some() {
                    return Some(Op::Refused { spec, how: how.to_string() });
                }
            }
        }
        None
    };
    // shaped prefix
    match shape {
        0 if !long_types.is_empty() && !short_types.is_empty() => {
            // long then short
            if let Some((s, _)) = good_spec(&mut r, &long_types, 1.0, p_field_max) {
                ops.push(Op::Build { spec: s });
            }
            if let Some((s, _)) = good_spec(&mut r, &short_types, 0.0, p_field_max) {
                ops.push(Op::Build { spec: s });
            }
        }
        1 if !long_types.is_empty() && !short_types.is_empty() => {
            // injected failure late in a long message, then a short one
            if let Some((s, m)) = good_spec(&mut r, &long_types, 1.0, p_field_max) {
                let n = count_puts(&m).max(1);
                let k = n - r.below(3.min(n));
                ops.push(Op::Injected { spec: s, k: k.max(1) });
            }
            if let Some((s, _)) = good_spec(&mut r, &short_types, 0.0, p_field_max) {
                ops.push(Op::Build { spec: s });
            }
        }
        2 => {
            // refused part-way, then success
            if let Some(op) = pick_refused(&mut r) {
                ops.push(op);
            }
            if let Some((s, _)) = good_spec(&mut r, &subset, p_len_max, p_field_max) {
                ops.push(Op::Build { spec: s });
            }
        }
        3 => {
            // same message twice
            if let Some((s, _)) = good_spec(&mut r, &subset, p_len_max, p_field_max) {
                ops.push(Op::Build { spec: s.clone() });
                ops.push(Op::Build { spec: s });
            }
        }
        5 => {
            // same type, values differing in one field draw (or two swapped)
            let pl = *r.pick(&[0.0, 0.0, 0.3]);
            if let Some((s0, _)) = good_spec(&mut r, &subset, pl, 0.0) {
                let d = count_field_draws(&s0).max(1);
                let j = r.below(d as u64) as u32;
                ops.extend(toggle_ops(&s0, j, r.chance(0.3)));
            }
        }
        4 if !long_types.is_empty() => {
            // generator (max lists) as history, then a typed build
            ops.push(Op::Generated { spec: draw_spec(&mut r, &long_types, 1.0, p_field_max) });
            if let Some((s, _)) = good_spec(&mut r, &subset, 0.0, p_field_max) {
                ops.push(Op::Build { spec: s });
            }
        }
        _ => {}
    }
    while ops.len() < n_ops {
        let mut x = r.below(total);
        let op = if x < w_build {
            good_spec(&mut r, &subset, p_len_max, p_field_max).map(|(s, _)| Op::Build { spec: s })
        } else {
            x -= w_build;
            if x < w_refused {
                pick_refused(&mut r)
            } else {
                x -= w_refused;
                if x < w_nowire {
                    Some(match r.below(3) {
                        0 => Op::NoWire { which: "empty".into(), n: 0 },
                        1 => Op::NoWire { which: "corrupt".into(), n: 0 },
                        _ => Op::NoWire { which: "unsupported".into(), n: *r.pick(&[0u16, 999, 1018, 4095]) },
                    })
                } else {
                    x -= w_nowire;
                    if x < w_injected {
                        pick_injected(&mut r, &subset)
                    } else {
                        x -= w_injected;
                        if x < w_generated {
                            let mut spec = draw_spec(&mut r, &subset, p_len_max, p_field_max);
                            if r.chance(0.12) {
                                // a number without an encoder: the generator path fails "naturally"
                                spec.msg = *r.pick(&[0u16, 1000, 1018, 4095]);
                            }
                            Some(Op::Generated { spec })
                        } else {
                            let spec = draw_spec(&mut r, &subset, p_len_max, p_field_max);
                            Some(Op::GeneratedInjected { spec, k: r.range(1, 60) })
                        }
                    }
                }
            }
        };
        match op {
            Some(op) => ops.push(op),
            None => ops.push(Op::NoWire { which: "empty".into(), n: 0 }),
        }
    }
    // the last op is always a judged one (the "target")
    if !is_judged(ops.last().unwrap()) {
        if let Some((s, _)) = good_spec(&mut r, &subset, p_len_max, p_field_max) {
            ops.push(Op::Build { spec: s });
        }
    }
    BuilderTrace { property: "C12".into(), seed: master, run, origin: "random".into(), ops, pristine_reference: root.fork("pristine").chance(0.003) }
}

/// fixed corner scenarios (seed-independent)
pub fn directed_builder(thorough: bool) -> Vec<BuilderTrace> {
    let all = msg_numbers();
    let mut out = Vec::new();
    let spec = |msg: u16, seed: u64, pl: f64| GenSpec { msg, gen_seed: seed, p_len_max: pl, p_field_max: 0.0, force: Vec::new() };
    let mut idx = 0u64;
    let mut add = |name: &str, ops: Vec<Op>, out: &mut Vec<BuilderTrace>| {
        let pristine = !name.starts_with("one_field") && !name.starts_with("two_fields") && !(name.starts_with("exactly_n") && ops.len() > 300);
        out.push(BuilderTrace { property: "C12".into(), seed: 0, run: idx, origin: format!("directed:{}", name), ops, pristine_reference: pristine });
        idx += 1;
    };
    let longs: Vec<u16> = LONG_TYPES.iter().copied().filter(|n| all.contains(n)).collect();
    let shorts: Vec<u16> = SHORT_TYPES.iter().copied().filter(|n| all.contains(n)).collect();
    for (i, l) in longs.iter().enumerate() {
        for (j, s) in shorts.iter().enumerate() {
            let sd = (i * 16 + j) as u64;
            // long then short; short then long; long, short, long
            add("long_then_short", vec![Op::Build { spec: spec(*l, 100 + sd, 1.0) }, Op::Build { spec: spec(*s, 200 + sd, 0.0) }], &mut out);
            add(
                "short_long_short",
                vec![Op::Build { spec: spec(*s, 300 + sd, 0.0) }, Op::Build { spec: spec(*l, 400 + sd, 0.5) }, Op::Build { spec: spec(*s, 300 + sd, 0.0) }],
                &mut out,
            );
            // injected failure at several crash points of the long message, then the short one
            if let Some(m) = materialise(&spec(*l, 100 + sd, 1.0)) {
                let n = count_puts(&m).max(1);
                for k in [1u64, 2, n / 2, n.saturating_sub(1).max(1), n] {
                    add(
                        "injected_fail_then_short",
                        vec![Op::Injected { spec: spec(*l, 100 + sd, 1.0), k: k.max(1) }, Op::Build { spec: spec(*s, 200 + sd, 0.0) }],
                        &mut out,
                    );
                }
            }
            // generator history then typed build
            add("generated_then_short", vec![Op::Generated { spec: spec(*l, 500 + sd, 1.0) }, Op::Build { spec: spec(*s, 200 + sd, 0.0) }], &mut out);
            add(
                "generated_injected_then_short",
                vec![Op::Generated { spec: spec(*l, 500 + sd, 1.0) }, Op::GeneratedInjected { spec: spec(*l, 501 + sd, 1.0), k: 40 }, Op::Build { spec: spec(*s, 200 + sd, 0.0) }],
                &mut out,
            );
        }
    }
    // refusals then success
    for n in all.iter().copied() {
        for how in refusal_kinds_for(n) {
            for s in shorts.iter().take(3) {
                add(
                    "refused_then_short",
                    vec![
                        Op::Build { spec: spec(n, 600, 0.5) },
                        Op::Refused { spec: spec(n, 601, 1.0), how: how.to_string() },
                        Op::Build { spec: spec(*s, 602, 0.0) },
                    ],
                    &mut out,
                );
            }
        }
    }
    for w in ["empty", "corrupt", "unsupported"] {
        for s in shorts.iter().take(3) {
            add(
                "nowire_between_builds",
                vec![Op::Build { spec: spec(longs.first().copied().unwrap_or(*s), 700, 1.0) }, Op::NoWire { which: w.into(), n: 999 }, Op::Build { spec: spec(*s, 701, 0.0) }],
                &mut out,
            );
        }
    }
    // long histories: exactly N earlier builds (counters that wrap, "every N-th call" logic)
    {
        let filler = shorts.first().copied().unwrap_or(all[0]);
        let long = longs.first().copied().unwrap_or(all[0]);
        let mut ns: Vec<usize> = vec![2, 3, 7, 8, 9, 15, 16, 17, 31, 32, 33, 63, 64, 65, 127, 128, 129, 254, 255, 256, 257, 258, 511, 512, 513, 1023, 1024, 1025];
        if thorough {
            ns.extend_from_slice(&[65_535, 65_536, 65_537]);
        }
        for n in ns {
            for (ti, tgt) in shorts.iter().take(4).enumerate() {
                if n > 2000 && ti > 0 {
                    continue;
                }
                let mut ops: Vec<Op> = Vec::with_capacity(n + 1);
                for i in 0..n.saturating_sub(1) {
                    ops.push(Op::Build { spec: spec(filler, 1000 + (i % 7) as u64, 0.0) });
                }
                ops.push(Op::Build { spec: spec(long, 1100, 1.0) });
                ops.push(Op::Build { spec: spec(*tgt, 1200 + ti as u64, 0.0) });
                add("exactly_n_earlier_builds", ops, &mut out);
            }
        }
    }
    // every type: pairs differing in exactly one field draw (zeros vs ones), and swapped pairs
    for (i, n) in all.iter().copied().enumerate() {
        let base = spec(n, 1300 + i as u64, 0.0);
        let d = count_field_draws(&base).min(if thorough { 400 } else { 48 });
        for j in 0..d {
            add("one_field_zeros_vs_ones", toggle_ops(&base, j, false), &mut out);
            if j % 4 == 1 {
                add("two_fields_swapped", toggle_ops(&base, j, true), &mut out);
            }
        }
    }
    // MSM messages with a full nsat x nsig cell matrix for every shape whose cell mask is 1..=64 bits
    // wide, after an MSM7 history (the cell mask is the crate's only field of variable width)
    {
        let msm_targets: Vec<u16> = [1071u16, 1074, 1077, 1084, 1127].iter().copied().filter(|n| all.contains(n)).collect();
        let hist = longs.iter().copied().find(|n| is_msm(*n)).unwrap_or(all[0]);
        for (ti, n) in msm_targets.iter().copied().enumerate() {
            for nsat in 1..=64u8 {
                for nsig in 1..=16u8 {
                    let cells = nsat as usize * nsig as usize;
                    if cells > 64 {
                        continue;
                    }
                    // all shapes for the first target, a diagonal selection for the others (every width once)
                    if ti > 0 && !(nsig == 1 || nsat == 1 || cells % 11 == 0 || cells == 64) {
                        continue;
                    }
                    add(
                        "msm_shape_after_msm7",
                        vec![Op::Build { spec: spec(hist, 1500, 0.3) }, Op::BuildMsm { spec: spec(n, 1501 + ti as u64, 0.0), nsat, nsig }],
                        &mut out,
                    );
                }
            }
        }
    }
    // maximum-length frames: 1059 with 64 satellites x 390 biases is 1029 bytes; near-maximum targets
    // after it (and after one more short build), so that the LAST bytes of the buffer matter
    if all.contains(&1059) {
        let max = Op::BuildBias { nsat: 64, nbias: 390 };
        for nsat in [64u8, 63, 62, 61, 60] {
            for nbias in [390u16, 389, 388, 387, 386, 385, 384, 380] {
                if nsat == 64 && nbias == 390 {
                    continue;
                }
                add("near_max_after_max_1059", vec![max.clone(), Op::BuildBias { nsat, nbias }], &mut out);
            }
        }
        for s in shorts.iter().take(3) {
            add("max_short_nearmax_1059", vec![max.clone(), Op::Build { spec: spec(*s, 1600, 0.0) }, Op::BuildBias { nsat: 63, nbias: 390 }], &mut out);
        }
        // payloads whose length is a multiple of 256 bytes, then a short target
        for (nsat, nbias) in [(10u8, 100u16), (20, 200), (40, 300)] {
            for d in 0..12u16 {
                add("payload_multiple_of_256_then_short", vec![Op::BuildBias { nsat, nbias: nbias + d }, Op::Build { spec: spec(shorts[0], 1601, 0.0) }], &mut out);
            }
        }
    }
    // a failing generator call (number without an encoder) between typed builds
    for (i, s) in shorts.iter().enumerate() {
        for bad in [0u16, 1000, 4095] {
            add(
                "generated_unsupported_between_builds",
                vec![Op::Build { spec: spec(*s, 1400 + i as u64, 0.0) }, Op::Generated { spec: spec(bad, 1401, 0.0) }, Op::Build { spec: spec(*s, 1402 + i as u64, 0.0) }],
                &mut out,
            );
            add("generated_unsupported_first", vec![Op::Generated { spec: spec(bad, 1403, 0.0) }, Op::Build { spec: spec(*s, 1404 + i as u64, 0.0) }], &mut out);
        }
    }
    // every type once after a maximum-length history and once before
    for (i, n) in all.iter().copied().enumerate() {
        let l = longs.get(i % longs.len().max(1)).copied().unwrap_or(n);
        add("each_type_after_long", vec![Op::Build { spec: spec(l, 800 + i as u64, 1.0) }, Op::Build { spec: spec(n, 900 + i as u64, 0.0) }], &mut out);
    }
    out
}
