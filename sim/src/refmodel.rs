//! Reference model: the oracle's trusted base. Written without any rtcm-rs
//! type and without crc-any, straight from the statements of C03, C05 and C13.

/// CRC-24Q, bit by bit: generator 0x1864CFB, zero initial value, MSB first,
/// no reflection, no final xor. This is the definition.
pub fn crc24q_bitwise(data: &[u8]) -> u32 {
    let mut crc: u32 = 0;
    for &b in data {
        crc ^= (b as u32) << 16;
        for _ in 0..8 {
            crc <<= 1;
            if crc & 0x0100_0000 != 0 {
                crc ^= 0x0186_4CFB;
            }
        }
    }
    crc & 0x00FF_FFFF
}

/// byte-at-a-time table derived from the bitwise definition (speed only; the
/// self-test checks it against the bitwise form)
pub struct Crc24Table([u32; 256]);

impl Crc24Table {
    pub fn new() -> Self {
        let mut t = [0u32; 256];
        for (i, e) in t.iter_mut().enumerate() {
            *e = crc24q_bitwise(&[i as u8]);
        }
        Crc24Table(t)
    }
    #[inline]
    pub fn crc(&self, data: &[u8]) -> u32 {
        let mut crc: u32 = 0;
        for &b in data {
            let idx = ((crc >> 16) as u8) ^ b;
            crc = ((crc << 8) & 0x00FF_FFFF) ^ self.0[idx as usize];
        }
        crc
    }
}

thread_local! {
    static TABLE: Crc24Table = Crc24Table::new();
}

#[inline]
pub fn crc24q(data: &[u8]) -> u32 {
    TABLE.with(|t| t.crc(data))
}

#[derive(Clone, Copy, Debug, PartialEq, Eq)]
pub enum Accept {
    /// accepted with payload length L
    Accept(usize),
    /// starts with 0xD3 but is shorter than its declared extent
    Incomplete,
    /// complete candidate whose checksum does not match
    NotValid,
    /// does not start with 0xD3 (or is empty)
    NotAFrame,
}

/// C03, transliterated. Reserved bits (upper six bits of byte 1) are ignored
/// for the decision but are part of the digested bytes.
pub fn ref_accept(s: &[u8]) -> Accept {
    if s.is_empty() || s[0] != 0xD3 {
        return Accept::NotAFrame;
    }
    if s.len() < 3 {
        return Accept::Incomplete;
    }
    let l = (((s[1] & 0x03) as usize) << 8) | s[2] as usize;
    if s.len() < l + 6 {
        return Accept::Incomplete;
    }
    let want = crc24q(&s[..l + 3]);
    let got = ((s[l + 3] as u32) << 16) | ((s[l + 4] as u32) << 8) | s[l + 5] as u32;
    if want == got {
        Accept::Accept(l)
    } else {
        Accept::NotValid
    }
}

/// C05, transliterated: (consumed, Some((start, frame_len))) for the earliest
/// complete valid candidate unless an earlier 0xD3 starts a still-incomplete
/// candidate, in which case (that position, None); (len, None) otherwise.
pub fn ref_scan(buf: &[u8]) -> (usize, Option<(usize, usize)>) {
    let mut i = 0;
    while i < buf.len() {
        if buf[i] == 0xD3 {
            match ref_accept(&buf[i..]) {
                Accept::Accept(l) => return (i + l + 6, Some((i, l + 6))),
                Accept::Incomplete => return (i, None),
                Accept::NotValid | Accept::NotAFrame => {}
            }
        }
        i += 1;
    }
    (buf.len(), None)
}

/// The documented caller loop over `ref_scan`: feed `chunks` of `stream`
/// (sizes), drain after every chunk. Returns delivered frames as absolute
/// (offset, len) and the total consumed.
pub fn ref_rover(stream: &[u8], cuts: &[usize]) -> (Vec<(usize, usize)>, usize) {
    let mut frames = Vec::new();
    let mut base = 0usize; // absolute offset of tail[0]
    let mut have = 0usize; // bytes delivered so far
    let mut bounds: Vec<usize> = cuts.to_vec();
    bounds.push(stream.len());
    for &end in &bounds {
        if end <= have {
            continue;
        }
        have = end;
        loop {
            let (c, f) = ref_scan(&stream[base..have]);
            if let Some((s, l)) = f {
                frames.push((base + s, l));
            }
            base += c;
            if f.is_none() {
                break;
            }
        }
    }
    (frames, base)
}

/// C13: the message number is the first 12 payload bits iff the payload has
/// at least two bytes.
pub fn ref_number(payload: &[u8]) -> Option<u16> {
    if payload.len() >= 2 {
        Some(((payload[0] as u16) << 4) | ((payload[1] as u16) >> 4))
    } else {
        None
    }
}

/// Foreign framer: D3 | rrrrrrLL | LLLLLLLL | payload | CRC (reference CRC).
pub fn make_frame(reserved: u8, payload: &[u8]) -> Vec<u8> {
    assert!(payload.len() <= 1023);
    let l = payload.len();
    let mut v = Vec::with_capacity(l + 6);
    v.push(0xD3);
    v.push(((reserved & 0x3F) << 2) | ((l >> 8) as u8 & 0x03));
    v.push((l & 0xFF) as u8);
    v.extend_from_slice(payload);
    let c = crc24q(&v);
    v.push((c >> 16) as u8);
    v.push((c >> 8) as u8);
    v.push(c as u8);
    v
}

/// Inverse of 24 forward CRC steps on a zero-extended value: returns v with
/// (v * x^24 mod P) == t. Used only to *craft* frames with a chosen checksum;
/// every crafted frame is re-validated with the forward reference CRC.
fn crc24q_unshift24(t: u32) -> u32 {
    let mut c = t & 0x00FF_FFFF;
    for _ in 0..24 {
        if c & 1 != 0 {
            c = ((c ^ 0x0086_4CFB) >> 1) | 0x0080_0000;
        } else {
            c >>= 1;
        }
    }
    c
}

/// Foreign framer variant: a valid frame whose checksum equals `target`, obtained
/// by choosing the last three payload bytes (payload must have >= 3 bytes).
pub fn make_frame_with_crc(reserved: u8, payload: &[u8], target: u32) -> Option<Vec<u8>> {
    let l = payload.len();
    if l < 3 || l > 1023 {
        return None;
    }
    let mut v = Vec::with_capacity(l + 6);
    v.push(0xD3);
    v.push(((reserved & 0x3F) << 2) | ((l >> 8) as u8 & 0x03));
    v.push((l & 0xFF) as u8);
    v.extend_from_slice(&payload[..l - 3]);
    let c = crc24q(&v);
    let x = c ^ crc24q_unshift24(target & 0x00FF_FFFF);
    v.push((x >> 16) as u8);
    v.push((x >> 8) as u8);
    v.push(x as u8);
    let got = crc24q(&v);
    if got != target & 0x00FF_FFFF {
        return None; // crafting failed: caller falls back to an ordinary frame
    }
    v.push((got >> 16) as u8);
    v.push((got >> 8) as u8);
    v.push(got as u8);
    Some(v)
}

/// Start-up self-test of the trusted base. Returns the number of vectors
/// checked or an error text (→ harness error, exit 2).
pub fn self_test(repo: &str) -> Result<usize, String> {
    if crc24q_bitwise(b"123456789") != 0xCDE703 {
        return Err(format!(
            "crc24q_bitwise check value {:06X} != CDE703",
            crc24q_bitwise(b"123456789")
        ));
    }
    if crc24q(b"123456789") != 0xCDE703 {
        return Err("table crc check value mismatch".into());
    }
    for t in [0u32, 0xFF_FFFF, 0xD3_0000, 0x12_3456] {
        match make_frame_with_crc(0, &[1, 2, 3, 4, 5, 6, 7], t) {
            Some(f) if ref_accept(&f) == Accept::Accept(7) && crc24q_bitwise(&f[..10]) == t => {}
            _ => return Err(format!("crafting a frame with checksum {:06X} failed", t)),
        }
    }
    // table vs bitwise on a deterministic pseudo-random corpus
    let mut x: u64 = 0x1234_5678_9ABC_DEF0;
    for n in 0..200usize {
        let mut v = Vec::with_capacity(n * 7 % 1100);
        for _ in 0..(n * 7 % 1100) {
            x = x.wrapping_mul(6364136223846793005).wrapping_add(1442695040888963407);
            v.push((x >> 33) as u8);
        }
        if crc24q(&v) != crc24q_bitwise(&v) {
            return Err("table crc != bitwise crc".into());
        }
    }
    // shipped single-frame vectors: trailing three bytes == crc of the rest
    let dir = format!("{}/testdata", repo);
    let mut n = 0usize;
    let rd = std::fs::read_dir(&dir).map_err(|e| format!("{}: {}", dir, e))?;
    let mut names: Vec<_> = rd
        .filter_map(|e| e.ok())
        .map(|e| e.path())
        .filter(|p| p.extension().map(|x| x == "rtcm").unwrap_or(false))
        .collect();
    names.sort();
    for p in names {
        let b = std::fs::read(&p).map_err(|e| format!("{:?}: {}", p, e))?;
        // every shipped vector file is a back-to-back sequence of valid frames
        let mut pos = 0usize;
        while pos < b.len() {
            match ref_accept(&b[pos..]) {
                Accept::Accept(l) => {
                    pos += l + 6;
                    n += 1;
                }
                other => {
                    return Err(format!(
                        "reference model rejects shipped vector {:?} at offset {}: {:?} (len {})",
                        p,
                        pos,
                        other,
                        b.len()
                    ))
                }
            }
        }
    }
    if n == 0 {
        return Err("no .rtcm vectors found for the reference self-test".into());
    }
    Ok(n)
}
