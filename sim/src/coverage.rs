//! Reach measurement over a recorded stream trace, computed with the reference
//! model only: the abstract rover state machine of DESIGN §9.1, the run
//! signature behind `distinct_nontrivial`, and the fault/probe counters.

use crate::refmodel::{ref_accept, ref_scan, Accept};
use crate::rng::Digest;
use crate::rover::incarnation_ranges;
use crate::stats::Stats;
use crate::trace::StreamTrace;

fn l_class(l: Option<usize>) -> u64 {
    match l {
        None => 0,
        Some(0) => 1,
        Some(1) => 2,
        Some(2..=255) => 3,
        Some(256..=1022) => 4,
        Some(_) => 5,
    }
}

/// abstract state of an unconsumed tail `stream[base..have]` (which, after a
/// scan that returned no frame, is empty or starts with an incomplete candidate)
fn tail_state(stream: &[u8], base: usize, have: usize, seg_end: usize) -> u64 {
    let n = have - base;
    if n == 0 {
        return 0;
    }
    let l = if n >= 3 { Some((((stream[base + 1] & 3) as usize) << 8) | stream[base + 2] as usize) } else { None };
    let tc: u64 = match n {
        1 => 1,
        2 => 2,
        3..=5 => 3,
        _ => {
            if n < l.unwrap() + 3 {
                4
            } else {
                5
            }
        }
    };
    // ground truth, invisible to the code under test: what will this candidate become?
    let truth: u64 = match ref_accept(&stream[base..seg_end]) {
        Accept::Accept(_) => 1,
        Accept::NotValid => 2,
        Accept::Incomplete => 3,
        Accept::NotAFrame => 4,
    };
    tc | (l_class(l) << 4) | (truth << 8)
}

fn size_class(n: usize) -> u64 {
    match n {
        0 => 0,
        1 => 1,
        2..=5 => 2,
        6..=63 => 3,
        64..=1028 => 4,
        _ => 5,
    }
}

fn cut_class(trace: &StreamTrace, pos: usize) -> u64 {
    // position of a cut relative to the segment that contains it
    for s in &trace.segments {
        if pos >= s.start && pos < s.start + s.len {
            let o = pos - s.start;
            let from_end = s.start + s.len - pos;
            let kind: u64 = match s.kind.as_str() {
                "noise" => 0,
                "lib" | "built" => 1,
                "foreign" => 2,
                "nearmiss" => 3,
                _ => 4,
            };
            let oc: u64 = if o == 0 {
                0
            } else if o < 3 {
                1
            } else if from_end <= 3 {
                3
            } else {
                2
            };
            return kind * 8 + oc;
        }
    }
    63
}

pub struct WalkOut {
    pub delivered: usize,
    pub rejected_complete: usize,
    pub nontrivial: bool,
    pub signature: u64,
}

/// walk the trace with the reference rover (V1 semantics), recording abstract
/// states / transitions and computing the run signature
pub fn walk(trace: &StreamTrace, stats: &mut Stats) -> WalkOut {
    let stream = &trace.stream;
    let mut sig = Digest::new();
    sig.push(trace.rx_variant as u64);
    for f in trace.faults.iter().take(48) {
        sig.push_str(&f.kind);
        sig.push_str(f.item.split(':').next().unwrap_or(""));
    }
    sig.push(trace.faults.len().min(64) as u64);
    let mut delivered = 0usize;
    let mut rejected = 0usize;
    let mut steps = 0usize;
    for (a, b) in incarnation_ranges(trace) {
        sig.push(0xABCD);
        let mut bounds: Vec<usize> = trace.cuts.iter().copied().filter(|&c| c > a && c < b).collect();
        bounds.push(b);
        let mut base = a;
        let mut have = a;
        let mut state = tail_state(stream, base, have, b);
        stats.abs_states.insert(state);
        for end in bounds {
            let chunk = end - have;
            have = end;
            let mut frames = 0u64;
            let mut skipped = 0usize;
            let mut first_effect: u64 = 0; // 0 none yet
            loop {
                let buf = &stream[base..have];
                let (c, f) = ref_scan(buf);
                if first_effect == 0 {
                    first_effect = match f {
                        Some((0, _)) => 2, // candidate at the head completed valid
                        Some(_) => 3,      // head was dead / skipped, a later frame was found
                        None => {
                            if c == 0 && !buf.is_empty() {
                                1 // still incomplete
                            } else {
                                4 // head dead or no candidate, nothing found
                            }
                        }
                    };
                }
                match f {
                    Some((s, l)) => {
                        frames += 1;
                        skipped += s;
                        rejected += buf[..s].iter().filter(|x| **x == 0xD3).count();
                        let _ = l;
                    }
                    None => {
                        skipped += c;
                        rejected += buf[..c].iter().filter(|x| **x == 0xD3).count();
                    }
                }
                base += c;
                if f.is_none() {
                    break;
                }
            }
            delivered += frames as usize;
            let new_state = tail_state(stream, base, have, b);
            let event = size_class(chunk) | (first_effect << 4);
            let outcome = frames.min(3) | ((match skipped {
                0 => 0u64,
                1..=5 => 1,
                _ => 2,
            }) << 2);
            stats.abs_states.insert(new_state);
            let mut t = Digest::new();
            t.push(state);
            t.push(event);
            t.push(outcome);
            t.push(new_state);
            stats.abs_transitions.insert(t.finish());
            if steps < 48 {
                sig.push(event);
                sig.push(outcome);
                sig.push(new_state);
                sig.push(cut_class(trace, end.min(stream.len().saturating_sub(1))));
            }
            steps += 1;
            state = new_state;
        }
    }
    sig.push((steps.min(1 << 12)) as u64);
    let chunks = trace.cuts.len() + 1;
    let nontrivial = (delivered > 0 || rejected > 0) && (chunks >= 2 || !trace.faults.is_empty());
    WalkOut { delivered, rejected_complete: rejected, nontrivial, signature: sig.finish() }
}

/// per-run bookkeeping common to all stream properties
pub fn account(trace: &StreamTrace, stats: &mut Stats, stalls: u64, short_reads: u64) -> WalkOut {
    stats.runs += 1;
    stats.stream_bytes += trace.stream.len() as u64;
    stats.sim_ns += trace.sim_ns as u128;
    stats.events += trace.events;
    *stats.strategies.entry(trace.strategy.clone()).or_insert(0) += 1;
    for f in &trace.faults {
        stats.fault(&f.kind);
    }
    stats.fault_n("rx_restart", trace.restarts.len() as u64);
    stats.fault_n("stall", stalls);
    stats.fault_n("short_read", short_reads);
    if trace.faults.is_empty() && trace.restarts.is_empty() {
        stats.probe("fault_free_run");
    }
    // cut-position probes
    for c in &trace.cuts {
        for s in &trace.segments {
            if *c > s.start && *c < s.start + s.len && s.kind != "noise" {
                let o = c - s.start;
                let from_end = s.start + s.len - c;
                if o == 1 {
                    stats.probe("cut_after_preamble");
                } else if o == 2 {
                    stats.probe("cut_inside_length_field");
                } else if from_end < 3 {
                    stats.probe("cut_inside_checksum");
                } else if from_end == 3 {
                    stats.probe("cut_before_checksum");
                } else {
                    stats.probe("cut_inside_payload");
                }
                break;
            }
            if *c == s.start + s.len && s.kind != "noise" {
                stats.probe("cut_exactly_at_frame_end");
                break;
            }
        }
    }
    for s in &trace.segments {
        if s.label.starts_with("nested:valid_outer") && s.intact {
            stats.probe("nested_in_valid_outer");
        } else if s.label.starts_with("nested:broken_outer") {
            stats.probe("nested_in_broken_outer");
        } else if s.label.starts_with("nested:incomplete_outer") {
            stats.probe("nested_in_incomplete_outer");
        } else if s.label.starts_with("noise:long_header") {
            stats.probe("long_header_item");
        }
    }
    let w = walk(trace, stats);
    if w.nontrivial {
        stats.nontrivial_runs += 1;
        stats.signatures.insert(w.signature);
    }
    stats.probe_n("frames_delivered_by_reference", w.delivered as u64);
    stats.probe_n("dead_candidates_skipped_by_reference", w.rejected_complete as u64);
    w
}
