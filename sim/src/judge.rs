//! Phase 2 of a run: PRNG-free judgement of a recorded stream trace. The same
//! functions serve the live run, minimisation and `--replay`.

use crate::refmodel::{crc24q, make_frame, ref_accept, ref_number, ref_scan, Accept};
use crate::rng::Digest;
use crate::rover::{drive, incarnation_ranges, one_shot, NoObserver, Observer, RoverOut};
use crate::stats::Stats;
use crate::stream::Prop;
use crate::trace::{C04Target, StreamTrace, Violation};
use crate::workload::panic_text;
use rtcm_rs::prelude::*;
use std::panic::{catch_unwind, AssertUnwindSafe};

// ---------------------------------------------------------------------------
// helpers around the real framer
// ---------------------------------------------------------------------------

fn err_name(e: &RtcmError) -> String {
    format!("{:?}", e)
}

/// real `MessageFrame::new`, panics turned into Err(text)
fn real_new(s: &[u8]) -> Result<Result<MessageFrame<'_>, RtcmError>, String> {
    catch_unwind(AssertUnwindSafe(|| MessageFrame::new(s))).map_err(|e| panic_text(&e))
}

fn short_hex(s: &[u8]) -> String {
    let n = s.len().min(12);
    let mut t = crate::trace::hex(&s[..n]);
    if s.len() > n {
        t.push_str("..");
    }
    t
}

/// C03 clauses on one slice
pub fn check_c03_slice(s: &[u8], what: &str) -> Result<Accept, Violation> {
    let r = ref_accept(s);
    let real = match real_new(s) {
        Ok(x) => x,
        Err(p) => {
            let clause = match r {
                Accept::Accept(_) => "C03.a",
                Accept::Incomplete => "C03.c",
                Accept::NotValid => "C03.d",
                Accept::NotAFrame => "C03.a",
            };
            return Err(Violation::new(
                "C03",
                clause,
                format!("{}: MessageFrame::new panicked ({}) on slice len {} [{}], reference says {:?}", what, p, s.len(), short_hex(s), r),
            ));
        }
    };
    match (r, real) {
        (Accept::Accept(l), Ok(f)) => {
            let crc_bytes = ((s[l + 3] as u32) << 16) | ((s[l + 4] as u32) << 8) | s[l + 5] as u32;
            let ok = f.frame_len() == l + 6
                && f.data_len() == l
                && f.data() == &s[3..3 + l]
                && f.frame_data() == &s[..l + 6]
                && f.crc() == crc_bytes
                && f.crc() == crc24q(&s[..l + 3]);
            if !ok {
                return Err(Violation::new(
                    "C03",
                    "C03.b",
                    format!(
                        "{}: accepted frame reports frame_len={} data_len={} crc={:06x}; expected {} {} {:06x} (slice len {} [{}])",
                        what,
                        f.frame_len(),
                        f.data_len(),
                        f.crc(),
                        l + 6,
                        l,
                        crc_bytes,
                        s.len(),
                        short_hex(s)
                    ),
                ));
            }
        }
        (Accept::Accept(l), Err(e)) => {
            return Err(Violation::new(
                "C03",
                "C03.a",
                format!("{}: valid frame L={} (reserved bits {:02x}) rejected with {} (slice len {} [{}])", what, l, s[1] >> 2, err_name(&e), s.len(), short_hex(s)),
            ))
        }
        (Accept::Incomplete, Err(RtcmError::Incomplete)) => {}
        (Accept::Incomplete, other) => {
            return Err(Violation::new(
                "C03",
                "C03.c",
                format!(
                    "{}: incomplete candidate (slice len {} [{}]) reported as {}",
                    what,
                    s.len(),
                    short_hex(s),
                    match &other {
                        Ok(f) => format!("accepted frame_len={}", f.frame_len()),
                        Err(e) => err_name(e),
                    }
                ),
            ))
        }
        (Accept::NotValid, Err(RtcmError::NotValid)) => {}
        (Accept::NotValid, other) => {
            return Err(Violation::new(
                "C03",
                "C03.d",
                format!(
                    "{}: complete candidate with wrong checksum (slice len {} [{}]) reported as {}",
                    what,
                    s.len(),
                    short_hex(s),
                    match &other {
                        Ok(f) => format!("accepted frame_len={}", f.frame_len()),
                        Err(e) => err_name(e),
                    }
                ),
            ))
        }
        (Accept::NotAFrame, Err(_)) => {}
        (Accept::NotAFrame, Ok(f)) => {
            return Err(Violation::new(
                "C03",
                "C03.a",
                format!("{}: slice not starting with 0xD3 accepted as frame_len={} (slice len {} [{}])", what, f.frame_len(), s.len(), short_hex(s)),
            ))
        }
    }
    Ok(r)
}

// ---------------------------------------------------------------------------
// C03
// ---------------------------------------------------------------------------

struct C03Obs<'a> {
    stats: Option<&'a mut Stats>,
    step: usize,
    evals: u64,
}

impl<'a> C03Obs<'a> {
    fn probe_buf(&mut self, buf: &[u8], base: usize) -> Result<(), Violation> {
        self.step += 1;
        if buf.is_empty() {
            return Ok(());
        }
        // always the head of the buffer (the candidate a growing tail starts with)
        let mut todo: Vec<usize> = vec![0];
        // D3 positions: first 4, then a rotating stride sample up to 16
        let d3: Vec<usize> = buf.iter().enumerate().skip(1).filter(|(_, b)| **b == 0xD3).map(|(i, _)| i).take(4096).collect();
        for p in d3.iter().take(4) {
            todo.push(*p);
        }
        if d3.len() > 4 {
            let rest = &d3[4..];
            let want = 12usize.min(rest.len());
            let stride = (rest.len() / want).max(1);
            let off = self.step % stride;
            let mut i = off;
            while i < rest.len() && todo.len() < 17 {
                todo.push(rest[i]);
                i += stride;
            }
        }
        // a few non-D3 positions
        for k in 0..3usize {
            let p = (self.step * 7 + k * 131) % buf.len();
            if buf[p] != 0xD3 {
                todo.push(p);
            }
        }
        for p in todo {
            let r = check_c03_slice(&buf[p..], &format!("rover buffer at abs {}", base + p))?;
            self.evals += 1;
            if let Some(st) = self.stats.as_deref_mut() {
                match r {
                    Accept::Accept(l) => {
                        st.probe("c03_accept");
                        if buf[p + 1] >> 2 != 0 {
                            st.probe("c03_reserved_nonzero_accepted");
                        }
                        match l {
                            0 => st.probe("c03_L0"),
                            1 => st.probe("c03_L1"),
                            1023 => st.probe("c03_L1023"),
                            _ => {}
                        }
                        if l >= 256 {
                            st.probe("c03_L_ge_256");
                        }
                    }
                    Accept::Incomplete => {
                        st.probe("c03_incomplete");
                        let have = buf.len() - p;
                        if have < 3 {
                            st.probe("c03_incomplete_header_unknown");
                        } else {
                            let l = (((buf[p + 1] & 3) as usize) << 8) | buf[p + 2] as usize;
                            if have == l + 5 {
                                st.probe("c03_incomplete_one_byte_short");
                            }
                            if have >= l + 3 {
                                st.probe("c03_incomplete_inside_crc");
                            }
                        }
                    }
                    Accept::NotValid => st.probe("c03_notvalid"),
                    Accept::NotAFrame => st.probe("c03_notaframe"),
                }
            }
        }
        Ok(())
    }
}

impl<'a> Observer for C03Obs<'a> {
    fn on_scan(&mut self, buf: &[u8], base: usize, _c: usize, _f: Option<&MessageFrame>) -> Result<(), Violation> {
        self.probe_buf(buf, base)
    }
    fn on_iter(&mut self, buf: &[u8], base: usize, _frames: &[(usize, usize)], _c: usize, _n: usize) -> Result<(), Violation> {
        self.probe_buf(buf, base)
    }
}

fn judge_c03(trace: &StreamTrace, mut stats: Option<&mut Stats>) -> Option<Violation> {
    let stream = &trace.stream;
    let mut evals = 0u64;
    // directed probes on frame-like segments (ground truth positions)
    let mut reserved_sweeps = 0;
    for s in &trace.segments {
        if s.kind == "noise" {
            continue;
        }
        let a = s.start;
        let e = (s.start + s.len).min(stream.len());
        if a >= e {
            continue;
        }
        for (slice, what) in [
            (&stream[a..e], "segment exact"),
            (&stream[a..], "segment with rest of stream"),
            (&stream[a..e - 1], "segment one byte short"),
        ] {
            if let Err(v) = check_c03_slice(slice, &format!("{} '{}' at abs {}", what, s.label, a)) {
                return Some(v);
            }
            evals += 1;
        }
        // C03.e: all 64 settings of the reserved bits, checksum recomputed
        if s.intact && reserved_sweeps < 2 {
            reserved_sweeps += 1;
            let payload = &stream[a + 3..e - 3];
            for res in 0..64u8 {
                let f = make_frame(res, payload);
                match real_new(&f) {
                    Ok(Ok(fr)) if fr.frame_len() == f.len() && fr.data() == payload => {}
                    other => {
                        return Some(Violation::new(
                            "C03",
                            "C03.e",
                            format!(
                                "payload of '{}' (L={}) re-framed with reserved bits {:#04x} and matching checksum is not accepted: {}",
                                s.label,
                                payload.len(),
                                res,
                                match other {
                                    Ok(Ok(fr)) => format!("accepted with frame_len {}", fr.frame_len()),
                                    Ok(Err(e)) => err_name(&e),
                                    Err(p) => format!("panic: {}", p),
                                }
                            ),
                        ))
                    }
                }
                evals += 1;
            }
            if let Some(st) = stats.as_deref_mut() {
                st.probe("c03_reserved_sweep_64");
            }
        }
    }
    // every slice the rover hands to the framer, while faults and cuts flow
    let mut obs = C03Obs { stats: stats.as_deref_mut(), step: 0, evals: 0 };
    let r = catch_unwind(AssertUnwindSafe(|| drive(trace, trace.rx_variant, "C03", &mut obs)));
    evals += obs.evals;
    let res = match r {
        Ok(Ok(out)) => {
            if let Some(st) = stats.as_deref_mut() {
                st.scanner_calls += out.scans;
            }
            None
        }
        Ok(Err(v)) => {
            if v.property == "C03" {
                Some(v)
            } else {
                if let Some(st) = stats.as_deref_mut() {
                    st.oos("scanner_breach_seen_by_other_check");
                }
                None
            }
        }
        Err(_) => {
            if let Some(st) = stats.as_deref_mut() {
                st.oos("scanner_panic_seen_by_other_check");
            }
            None
        }
    };
    if let Some(st) = stats {
        st.oracle_evals += evals;
    }
    res
}

// ---------------------------------------------------------------------------
// C04
// ---------------------------------------------------------------------------

pub fn check_c04_target(stream: &[u8], t: &C04Target) -> Result<(), Violation> {
    let e = t.off + t.frame_len;
    if e > stream.len() {
        return Ok(()); // target no longer inside the stream (minimiser) – nothing to judge
    }
    for (slice, what) in [(&stream[t.off..e], "exact"), (&stream[t.off..], "with following bytes")] {
        match real_new(slice) {
            Ok(Err(RtcmError::NotValid)) => {}
            other => {
                return Err(Violation::new(
                    "C04",
                    "C04.a",
                    format!(
                        "frame at abs {} (len {}) damaged by {} bits={:?} ({}) is not rejected as NotValid: {}",
                        t.off,
                        t.frame_len,
                        t.class,
                        &t.bits[..t.bits.len().min(8)],
                        what,
                        match other {
                            Ok(Ok(f)) => format!("ACCEPTED frame_len={}", f.frame_len()),
                            Ok(Err(e)) => err_name(&e),
                            Err(p) => format!("panic: {}", p),
                        }
                    ),
                ))
            }
        }
    }
    // "reused receive buffer": the intact frame is parsed, then damaged IN PLACE (same address,
    // same length, same neighbours) and parsed again
    let n = t.frame_len;
    let mut scratch: Vec<u8> = stream[t.off..e].to_vec();
    for b in &t.bits {
        scratch[*b as usize / 8] ^= 0x80 >> (*b % 8); // undo the damage: the original frame
    }
    let first_ok = matches!(real_new(&scratch[..n]), Ok(Ok(_)));
    for b in &t.bits {
        scratch[*b as usize / 8] ^= 0x80 >> (*b % 8);
    }
    if first_ok {
        match real_new(&scratch[..n]) {
            Ok(Err(RtcmError::NotValid)) => {}
            other => {
                return Err(Violation::new(
                    "C04",
                    "C04.a",
                    format!(
                        "frame (len {}) parsed intact and then damaged in place by {} bits={:?} is not rejected as NotValid: {}",
                        n,
                        t.class,
                        &t.bits[..t.bits.len().min(8)],
                        match other {
                            Ok(Ok(f)) => format!("ACCEPTED frame_len={}", f.frame_len()),
                            Ok(Err(e)) => err_name(&e),
                            Err(p) => format!("panic: {}", p),
                        }
                    ),
                ))
            }
        }
    }
    Ok(())
}

fn judge_c04(trace: &StreamTrace, mut stats: Option<&mut Stats>) -> Option<Violation> {
    let mut evals = 0u64;
    for t in &trace.c04 {
        if let Err(v) = check_c04_target(&trace.stream, t) {
            return Some(v);
        }
        evals += 2;
        if let Some(st) = stats.as_deref_mut() {
            st.fault(&format!("c04_{}", t.class));
            let nb = t.frame_len * 8;
            if t.bits.iter().any(|b| (*b as usize) >= nb - 24) {
                st.probe("c04_hits_checksum");
            }
            if t.bits.iter().any(|b| *b < 14) {
                st.probe("c04_hits_reserved_bits");
            }
            if t.bits.iter().any(|b| *b >= 24 && (*b as usize) < nb - 24) {
                st.probe("c04_hits_payload");
            }
            if t.frame_len == 6 {
                st.probe("c04_L0_frame");
            }
            if t.frame_len == 1029 {
                st.probe("c04_L1023_frame");
            }
        }
    }
    let r = catch_unwind(AssertUnwindSafe(|| drive(trace, trace.rx_variant, "C04", &mut NoObserver)));
    let res = match r {
        Ok(Ok(out)) => {
            let mut bad = None;
            for t in &trace.c04 {
                evals += 1;
                if let Some(d) = out.deliveries.iter().find(|d| d.off == t.off) {
                    bad = Some(Violation::new(
                        "C04",
                        "C04.b",
                        format!(
                            "scanner (rover V{}) delivered a frame of {} bytes starting at abs {}, where a frame damaged by {} bits={:?} sits",
                            trace.rx_variant,
                            d.len,
                            t.off,
                            t.class,
                            &t.bits[..t.bits.len().min(8)]
                        ),
                    ));
                    break;
                }
            }
            if let Some(st) = stats.as_deref_mut() {
                st.scanner_calls += out.scans;
                if !trace.c04.is_empty() && out.deliveries.len() > 0 {
                    st.probe("c04_run_with_deliveries_around_damage");
                }
            }
            bad
        }
        Ok(Err(_)) => {
            if let Some(st) = stats.as_deref_mut() {
                st.oos("scanner_breach_seen_by_other_check");
            }
            None
        }
        Err(_) => {
            if let Some(st) = stats.as_deref_mut() {
                st.oos("scanner_panic_seen_by_other_check");
            }
            None
        }
    };
    if let Some(st) = stats {
        st.oracle_evals += evals;
    }
    res
}

// ---------------------------------------------------------------------------
// C05
// ---------------------------------------------------------------------------

struct C05Obs<'a> {
    stats: Option<&'a mut Stats>,
    evals: u64,
}

pub fn c05_compare(buf: &[u8], base: usize, consumed: usize, frame: Option<(usize, usize)>, frame_bytes_ok: bool) -> Result<(), Violation> {
    let n = buf.len();
    if consumed > n {
        return Err(Violation::new("C05", "C05.b", format!("consumed {} > buffer length {} (buffer at abs {})", consumed, n, base)));
    }
    let (rc, rf) = ref_scan(buf);
    if (consumed, frame) != (rc, rf) {
        return Err(Violation::new(
            "C05",
            "C05.a",
            format!(
                "scanner returned consumed={} frame={:?}, reference says consumed={} frame={:?} (buffer of {} bytes at abs {}, head [{}])",
                consumed,
                frame,
                rc,
                rf,
                n,
                base,
                short_hex(buf)
            ),
        ));
    }
    if let Some((s, l)) = frame {
        if !frame_bytes_ok || s + l != consumed {
            return Err(Violation::new(
                "C05",
                "C05.c",
                format!("delivered frame (start {}, len {}) is not the buffer bytes ending at the consumed mark {} (buffer at abs {})", s, l, consumed, base),
            ));
        }
    }
    // C05.d, stated independently of ref_scan
    let skipped_end = match frame {
        Some((s, _)) => s,
        None => consumed,
    };
    for q in 0..skipped_end.min(n) {
        if buf[q] == 0xD3 {
            let a = ref_accept(&buf[q..]);
            if a != Accept::NotValid {
                return Err(Violation::new(
                    "C05",
                    "C05.d",
                    format!("skipped byte at abs {} starts a candidate that is {:?}, not dead (buffer at abs {})", base + q, a, base),
                ));
            }
        }
    }
    if frame.is_none() && consumed < n {
        let a = ref_accept(&buf[consumed..]);
        if a != Accept::Incomplete {
            return Err(Violation::new(
                "C05",
                "C05.d",
                format!("no frame returned and consumed {} < len {}, but the byte at the mark starts {:?}, not an incomplete candidate", consumed, n, a),
            ));
        }
    }
    Ok(())
}

/// one real scanner call on `buf`, judged by the C05 clauses a-d (used by the enumerated sweeps)
pub fn check_c05_buffer(buf: &[u8], what: &str) -> Result<(), Violation> {
    let r = catch_unwind(AssertUnwindSafe(|| {
        let (c, f) = next_msg_frame(buf);
        let fr = f.as_ref().map(|f| ((f.frame_data().as_ptr() as usize).wrapping_sub(buf.as_ptr() as usize), f.frame_len()));
        let ok = match (&f, fr) {
            (Some(f), Some((rs, l))) => rs <= buf.len() && rs + l <= buf.len() && f.frame_data() == &buf[rs..rs + l],
            _ => true,
        };
        (c, fr, ok)
    }));
    match r {
        Ok((c, fr, ok)) => c05_compare(buf, 0, c, fr, ok).map_err(|mut v| {
            v.detail = format!("{}: {}", what, v.detail);
            v
        }),
        Err(e) => Err(Violation::new("C05", "C05.f", format!("{}: scanner panicked: {}", what, panic_text(&e)))),
    }
}

impl<'a> C05Obs<'a> {
    fn note(&mut self, buf: &[u8], consumed: usize, frame: Option<(usize, usize)>) {
        if let Some(st) = self.stats.as_deref_mut() {
            match frame {
                Some((s, l)) => {
                    st.probe("scan_frame");
                    if s > 0 {
                        st.probe("scan_frame_after_skipped_bytes");
                        if buf[..s].contains(&0xD3) {
                            st.probe("scan_skipped_dead_candidate_before_frame");
                        }
                    }
                    if consumed < buf.len() {
                        st.probe("scan_frame_with_suffix");
                    }
                    if l == 6 {
                        st.probe("scan_frame_L0");
                    }
                    if l == 1029 {
                        st.probe("scan_frame_L1023");
                    }
                }
                None => {
                    if consumed == buf.len() {
                        if buf.is_empty() {
                            st.probe("scan_empty_buffer");
                        } else {
                            st.probe("scan_consume_all_no_candidate");
                            if buf.contains(&0xD3) {
                                st.probe("scan_consume_all_only_dead_candidates");
                            }
                        }
                    } else {
                        st.probe("scan_blocked_by_incomplete");
                        if consumed > 0 {
                            st.probe("scan_skip_then_incomplete");
                        }
                        // is a complete valid frame hidden behind the incomplete candidate?
                        let (_, f2) = ref_scan(&buf[consumed + 1..]);
                        if f2.is_some() {
                            st.probe("scan_incomplete_blocks_later_valid_frame");
                        }
                    }
                }
            }
        }
    }
}

impl<'a> Observer for C05Obs<'a> {
    fn on_iter_marks(&mut self, buf: &[u8], base: usize, marks: &[usize]) -> Result<(), Violation> {
        self.marks_check(buf, base, marks)
    }
    fn on_scan(&mut self, buf: &[u8], base: usize, consumed: usize, frame: Option<&MessageFrame>) -> Result<(), Violation> {
        let fr = frame.map(|f| {
            let rs = (f.frame_data().as_ptr() as usize).wrapping_sub(buf.as_ptr() as usize);
            (rs, f.frame_len())
        });
        let bytes_ok = match (frame, fr) {
            (Some(f), Some((rs, l))) => rs <= buf.len() && rs + l <= buf.len() && f.frame_data() == &buf[rs..rs + l],
            _ => true,
        };
        self.evals += 4;
        c05_compare(buf, base, consumed, fr, bytes_ok)?;
        self.note(buf, consumed, fr);
        Ok(())
    }
    fn on_iter(&mut self, buf: &[u8], base: usize, frames: &[(usize, usize)], consumed: usize, nexts: usize) -> Result<(), Violation> {
        // reference: repeated scanner calls including the final None call
        let mut want: Vec<(usize, usize)> = Vec::new();
        let mut pos = 0usize;
        loop {
            let (c, f) = ref_scan(&buf[pos..]);
            if let Some((s, l)) = f {
                want.push((pos + s, l));
            }
            pos += c;
            if f.is_none() {
                break;
            }
        }
        self.evals += 2;
        if frames != want.as_slice() || consumed != pos {
            return Err(Violation::new(
                "C05",
                "C05.e",
                format!(
                    "iterator over buffer of {} bytes at abs {} yielded {:?} consumed()={}; repeated reference scans give {:?} total {}",
                    buf.len(),
                    base,
                    &frames[..frames.len().min(6)],
                    consumed,
                    &want[..want.len().min(6)],
                    pos
                ),
            ));
        }
        if let Some(st) = self.stats.as_deref_mut() {
            st.probe("iter_pass");
            match frames.len() {
                0 => st.probe("iter_yields_0"),
                1 => st.probe("iter_yields_1"),
                _ => st.probe("iter_yields_2plus"),
            }
            if consumed < buf.len() {
                st.probe("iter_stops_at_incomplete");
            }
            let _ = nexts;
        }
        Ok(())
    }
}

impl<'a> C05Obs<'a> {
    /// consumed() after every next(): the running total of repeated reference scans
    fn marks_check(&mut self, buf: &[u8], base: usize, marks: &[usize]) -> Result<(), Violation> {
        let mut want: Vec<usize> = Vec::new();
        let mut pos = 0usize;
        loop {
            if pos >= buf.len() {
                want.push(pos);
                break;
            }
            let (c, f) = ref_scan(&buf[pos..]);
            pos += c;
            want.push(pos);
            if f.is_none() {
                break;
            }
        }
        self.evals += 1;
        if marks != want.as_slice() {
            return Err(Violation::new(
                "C05",
                "C05.e",
                format!(
                    "iterator over buffer of {} bytes at abs {}: consumed() read after each next() call was {:?}; the running consumed total of repeated reference scans is {:?}",
                    buf.len(),
                    base,
                    &marks[..marks.len().min(8)],
                    &want[..want.len().min(8)]
                ),
            ));
        }
        Ok(())
    }
}

fn judge_c05(trace: &StreamTrace, mut stats: Option<&mut Stats>) -> Option<Violation> {
    let mut obs = C05Obs { stats: stats.as_deref_mut(), evals: 0 };
    let r = catch_unwind(AssertUnwindSafe(|| drive(trace, trace.rx_variant, "C05", &mut obs)));
    let evals = obs.evals;
    let res = match r {
        Ok(Ok(out)) => {
            if let Some(st) = stats.as_deref_mut() {
                st.scanner_calls += out.scans;
            }
            None
        }
        Ok(Err(v)) => Some(v),
        Err(e) => Some(Violation::new("C05", "C05.f", format!("scanner panicked (rover V{}): {}", trace.rx_variant, panic_text(&e)))),
    };
    if let Some(st) = stats {
        st.oracle_evals += evals;
    }
    res
}

// ---------------------------------------------------------------------------
// C06
// ---------------------------------------------------------------------------

fn frames_digest(stream: &[u8], frames: &[(usize, usize)]) -> u64 {
    let mut d = Digest::new();
    for (o, l) in frames {
        d.push(*o as u64);
        d.push(*l as u64);
        if o + l <= stream.len() {
            d.push_bytes(&stream[*o..*o + *l]);
        }
    }
    d.finish()
}

fn judge_c06(trace: &StreamTrace, mut stats: Option<&mut Stats>) -> Option<Violation> {
    let stream = &trace.stream;
    let ranges = incarnation_ranges(trace);
    // one-shot reference behaviour per incarnation (real scanner, whole segment)
    let mut want_frames: Vec<(usize, usize)> = Vec::new();
    let mut want_attrs: Vec<u64> = Vec::new();
    let mut want_consumed: Vec<usize> = Vec::new();
    let mut one_shot_failed: Option<String> = None;
    for (a, b) in &ranges {
        let seg = &stream[*a..*b];
        match catch_unwind(AssertUnwindSafe(|| one_shot(seg))) {
            Ok(Ok((fr, c))) => {
                for (o, l, at) in fr {
                    want_frames.push((a + o, l));
                    want_attrs.push(at);
                }
                want_consumed.push(c);
            }
            Ok(Err(v)) => {
                one_shot_failed = Some(format!("{}: {}", v.clause, v.detail));
                break;
            }
            Err(e) => {
                one_shot_failed = Some(format!("panic: {}", panic_text(&e)));
                break;
            }
        }
    }
    let mut evals = 0u64;
    let mut res = None;
    for variant in 1..=4u8 {
        let r = catch_unwind(AssertUnwindSafe(|| drive(trace, variant, "C06", &mut NoObserver)));
        let out: Result<RoverOut, String> = match r {
            Ok(Ok(o)) => Ok(o),
            Ok(Err(v)) => Err(format!("{}: {}", v.clause, v.detail)),
            Err(e) => Err(format!("panic: {}", panic_text(&e))),
        };
        evals += 2;
        match (&one_shot_failed, out) {
            (Some(_), Err(_)) => {
                if let Some(st) = stats.as_deref_mut() {
                    st.oos("scanner_fails_in_both_modes");
                }
            }
            (Some(f), Ok(_)) => {
                res = Some(Violation::new("C06", "C06.a", format!("one-shot scan of the stream fails ({}) but chunked delivery with rover V{} completes", f, variant)));
                break;
            }
            (None, Err(f)) => {
                res = Some(Violation::new("C06", "C06.a", format!("chunked delivery with rover V{} fails ({}) but the one-shot scan completes", variant, f)));
                break;
            }
            (None, Ok(o)) => {
                let got: Vec<(usize, usize)> = o.deliveries.iter().map(|d| (d.off, d.len)).collect();
                if got != want_frames {
                    let k = got.iter().zip(want_frames.iter()).take_while(|(a, b)| a == b).count();
                    res = Some(Violation::new(
                        "C06",
                        "C06.a",
                        format!(
                            "rover V{} over {} chunks delivered {} frames, one-shot scan {} frames; first difference at index {}: chunked {:?} vs one-shot {:?}",
                            variant,
                            trace.cuts.len() + 1,
                            got.len(),
                            want_frames.len(),
                            k,
                            got.get(k),
                            want_frames.get(k)
                        ),
                    ));
                    break;
                }
                // same frames: they must also report the same about themselves (payload, lengths,
                // checksum, message number) in both delivery modes
                if let Some(k) = o.deliveries.iter().zip(want_attrs.iter()).position(|(d, w)| d.attrs != *w) {
                    res = Some(Violation::new(
                        "C06",
                        "C06.a",
                        format!(
                            "rover V{} over {} chunks: frame #{} at abs {} ({} bytes) is delivered at the same place as in the one-shot scan but reports different attributes (data / lengths / checksum / message number) - it had {} bytes behind it in the buffer when delivered",
                            variant,
                            trace.cuts.len() + 1,
                            k,
                            o.deliveries[k].off,
                            o.deliveries[k].len,
                            o.deliveries[k].have.saturating_sub(o.deliveries[k].off + o.deliveries[k].len)
                        ),
                    ));
                    break;
                }
                let gc: Vec<usize> = o.incarnations.iter().map(|x| x.2).collect();
                if gc != want_consumed {
                    res = Some(Violation::new(
                        "C06",
                        "C06.b",
                        format!("rover V{} consumed totals per incarnation {:?}, one-shot {:?} ({} chunks)", variant, gc, want_consumed, trace.cuts.len() + 1),
                    ));
                    break;
                }
                if let Some(st) = stats.as_deref_mut() {
                    st.scanner_calls += o.scans;
                    if variant == 1 {
                        let _ = frames_digest(stream, &got);
                        st.probe_n("c06_frames_compared", got.len() as u64);
                        if got.is_empty() {
                            st.probe("c06_run_without_frames");
                        }
                    }
                }
            }
        }
    }
    if let Some(st) = stats {
        st.oracle_evals += evals;
    }
    res
}

// ---------------------------------------------------------------------------
// C13
// ---------------------------------------------------------------------------

#[derive(Debug, PartialEq)]
enum MsgOutcome {
    Msg(String),
    Panic,
}

fn real_message(f: &MessageFrame) -> (MsgOutcome, Option<Message>) {
    match catch_unwind(AssertUnwindSafe(|| f.get_message())) {
        Ok(m) => (MsgOutcome::Msg(String::new()), Some(m)),
        Err(_) => (MsgOutcome::Panic, None),
    }
}

fn messages_equal(a: &Option<Message>, b: &Option<Message>) -> bool {
    match (a, b) {
        (None, None) => true,
        (Some(x), Some(y)) => x == y || format!("{:?}", x) == format!("{:?}", y),
        _ => false,
    }
}

/// child side: decode one frame (hex) in this fresh process and print the Debug rendering
pub fn decode_child(hexstr: &str) -> i32 {
    let h = hexstr.trim();
    let mut v = Vec::with_capacity(h.len() / 2);
    for i in 0..h.len() / 2 {
        match u8::from_str_radix(&h[2 * i..2 * i + 2], 16) {
            Ok(b) => v.push(b),
            Err(_) => return 2,
        }
    }
    match real_new(&v) {
        Ok(Ok(f)) => println!("{}", msg_brief_full(&real_message(&f).1)),
        _ => println!("<not a frame>"),
    }
    0
}

fn pristine_decode(frame: &[u8]) -> Option<String> {
    let exe = std::env::current_exe().ok()?;
    let out = std::process::Command::new(exe).args(["decode-frame", &crate::trace::hex(frame)]).output().ok()?;
    if !out.status.success() {
        return None;
    }
    Some(String::from_utf8_lossy(&out.stdout).trim_end().to_string())
}

fn msg_brief_full(m: &Option<Message>) -> String {
    match m {
        None => "<decoder panicked>".into(),
        Some(m) => format!("{:?}", m),
    }
}

fn msg_brief(m: &Option<Message>) -> String {
    match m {
        None => "<decoder panicked>".into(),
        Some(m) => {
            let s = format!("{:?}", m);
            if s.len() > 60 {
                format!("{}..", &s[..60])
            } else {
                s
            }
        }
    }
}

/// compare a frame parsed from `with` (frame bytes followed by a suffix) with
/// the same frame parsed alone; `flen` is the frame's own length
pub fn check_c13(with: &[u8], flen: usize, what: &str, decode: bool, mut stats: Option<&mut Stats>) -> Result<(), Violation> {
    let exact = &with[..flen];
    let fe = match real_new(exact) {
        Ok(Ok(f)) => f,
        other => {
            return Err(Violation::new(
                "C13",
                "C13.a",
                format!(
                    "{}: frame of {} bytes was delivered with {} bytes behind it, but parsed alone it is {}",
                    what,
                    flen,
                    with.len() - flen,
                    match other {
                        Ok(Err(e)) => err_name(&e),
                        Err(p) => format!("panic: {}", p),
                        _ => unreachable!(),
                    }
                ),
            ))
        }
    };
    let fw = match real_new(with) {
        Ok(Ok(f)) => f,
        other => {
            return Err(Violation::new(
                "C13",
                "C13.a",
                format!(
                    "{}: frame of {} bytes is accepted alone, but with {} bytes behind it the framer says {}",
                    what,
                    flen,
                    with.len() - flen,
                    match other {
                        Ok(Err(e)) => err_name(&e),
                        Err(p) => format!("panic: {}", p),
                        _ => unreachable!(),
                    }
                ),
            ))
        }
    };
    if fe.frame_len() != fw.frame_len() || fe.data_len() != fw.data_len() || fe.data() != fw.data() || fe.frame_data() != fw.frame_data() || fe.crc() != fw.crc() {
        return Err(Violation::new(
            "C13",
            "C13.a",
            format!(
                "{}: attributes differ with a {}-byte suffix: frame_len {} vs {}, data_len {} vs {}, crc {:06x} vs {:06x}",
                what,
                with.len() - flen,
                fw.frame_len(),
                fe.frame_len(),
                fw.data_len(),
                fe.data_len(),
                fw.crc(),
                fe.crc()
            ),
        ));
    }
    let l = flen - 6;
    let want = ref_number(&exact[3..3 + l]);
    if fe.message_number() != want || fw.message_number() != want {
        return Err(Violation::new(
            "C13",
            "C13.b",
            format!(
                "{}: payload length {}: message_number() is {:?} alone and {:?} with a {}-byte suffix; the frame's own bytes say {:?} (frame [{}])",
                what,
                l,
                fe.message_number(),
                fw.message_number(),
                with.len() - flen,
                want,
                short_hex(exact)
            ),
        ));
    }
    if decode {
        let (oe, me) = real_message(&fe);
        let (ow, mw) = real_message(&fw);
        if oe != ow || !messages_equal(&me, &mw) {
            return Err(Violation::new(
                "C13",
                "C13.c",
                format!(
                    "{}: payload length {}: get_message() gives {} alone but {} with a {}-byte suffix",
                    what,
                    l,
                    msg_brief(&me),
                    msg_brief(&mw),
                    with.len() - flen
                ),
            ));
        }
        if let Some(st) = stats.as_deref_mut() {
            if oe == MsgOutcome::Panic {
                st.oos("decoder_panic_on_foreign_payload(C02)");
            }
            match &me {
                Some(Message::Empty) => st.probe("c13_decoded_empty"),
                Some(Message::Corrupt) => st.probe("c13_decoded_corrupt"),
                Some(Message::MsgNotSupported(_)) => st.probe("c13_decoded_unsupported"),
                Some(_) => st.probe("c13_decoded_typed"),
                None => {}
            }
        }
    }
    Ok(())
}

struct C13Obs<'a> {
    stats: Option<&'a mut Stats>,
    evals: u64,
    deliveries: u64,
    /// decode the first deliveries also on a fresh thread (runs that carry a frame family)
    fresh_thread: bool,
    /// ... and in a pristine child process (directed family scenarios)
    pristine_decode: bool,
    /// (absolute offset, exact frame bytes, Debug rendering of the message decoded in stream order)
    decoded: Vec<(usize, Vec<u8>, String)>,
}

impl<'a> C13Obs<'a> {
    fn delivered(&mut self, buf: &[u8], base: usize, rs: usize, flen: usize) -> Result<(), Violation> {
        if rs + flen > buf.len() || flen < 6 {
            return Ok(()); // a C05 matter
        }
        let with = &buf[rs..];
        let suffix = with.len() - flen;
        self.deliveries += 1;
        let what = format!("delivery at abs {}", base + rs);
        check_c13(with, flen, &what, true, self.stats.as_deref_mut())?;
        self.evals += 3;
        if self.decoded.len() < 256 {
            if let Ok(Ok(f)) = real_new(&with[..flen]) {
                let (_, m) = real_message(&f);
                let want = msg_brief_full(&m);
                // the same bytes at every memory alignment (and, for the first deliveries, on a
                // fresh thread): the decoded message is a function of the bytes, not of where they
                // lie or of what this thread decoded before
                if self.deliveries <= 8 && flen <= 600 {
                    let mut scratch = vec![0u8; flen + 16];
                    for o in 0..8usize {
                        scratch[o..o + flen].copy_from_slice(&with[..flen]);
                        if let Ok(Ok(f2)) = real_new(&scratch[o..o + flen]) {
                            let got = msg_brief_full(&real_message(&f2).1);
                            self.evals += 1;
                            if got != want {
                                let cut = |s: &String| if s.len() > 70 { format!("{}..", &s[..70]) } else { s.clone() };
                                return Err(Violation::new(
                                    "C13",
                                    "C13.c",
                                    format!(
                                        "delivery at abs {} ({} bytes): decoded where it was delivered it gave {}, the same bytes copied to an address with offset {} (mod 8) decode to {}",
                                        base + rs,
                                        flen,
                                        cut(&want),
                                        o,
                                        cut(&got)
                                    ),
                                ));
                            }
                        }
                    }
                    if self.pristine_decode && self.deliveries <= 6 {
                        // ... and in a pristine child PROCESS (directed family scenarios only)
                        if let Some(got) = pristine_decode(&with[..flen]) {
                            self.evals += 1;
                            if got != want {
                                let cut = |s: &String| if s.len() > 70 { format!("{}..", &s[..70]) } else { s.clone() };
                                return Err(Violation::new(
                                    "C13",
                                    "C13.c",
                                    format!(
                                        "delivery at abs {} ({} bytes): decoded in stream order it gave {}, decoded first thing in a pristine process it gives {}",
                                        base + rs,
                                        flen,
                                        cut(&want),
                                        cut(&got)
                                    ),
                                ));
                            }
                        }
                    }
                }
                self.decoded.push((base + rs, with[..flen].to_vec(), want));
            }
        }
        if let Some(st) = self.stats.as_deref_mut() {
            match suffix {
                0 => st.probe("c13_suffix_0"),
                1 => st.probe("c13_suffix_1"),
                2..=5 => st.probe("c13_suffix_2to5"),
                _ => {
                    if suffix >= flen {
                        st.probe("c13_suffix_ge_frame");
                    } else {
                        st.probe("c13_suffix_6plus");
                    }
                }
            }
            match flen - 6 {
                0 => st.probe("c13_L0_delivered"),
                1 => st.probe("c13_L1_delivered"),
                2 => st.probe("c13_L2_delivered"),
                1023 => st.probe("c13_L1023_delivered"),
                _ => {}
            }
            if flen - 6 < 2 && suffix >= 2 {
                st.probe("c13_short_payload_with_2plus_suffix");
            }
        }
        // directed suffixes, so the verdict does not depend on the schedule
        // having produced them (only for the first deliveries of a run: the
        // frames differ, the suffix set does not)
        if self.deliveries <= 6 {
            let exact = &with[..flen];
            let further = make_frame(0, &[0x3E, 0xD0, 0x00]);
            let many: Vec<u8> = (0..200u32).map(|i| (i.wrapping_mul(37) ^ 0x5A) as u8).collect();
            let suffixes: [(&[u8], bool); 7] = [
                (&[0x00], true),
                (&[0xFF], false),
                (&[0xD3], false),
                (&[0x3E, 0xD0], true),
                (&[0x43, 0x50, 0x00, 0x00], false),
                (&further, false),
                (&many, true),
            ];
            for (sfx, decode) in suffixes.iter() {
                let mut v = exact.to_vec();
                v.extend_from_slice(sfx);
                check_c13(&v, flen, &format!("frame delivered at abs {} re-parsed with directed suffix of {} bytes", base + rs, sfx.len()), *decode, None)?;
                self.evals += 2;
            }
            if let Some(st) = self.stats.as_deref_mut() {
                st.probe("c13_directed_suffix_set");
            }
        }
        Ok(())
    }
}

impl<'a> Observer for C13Obs<'a> {
    fn on_scan(&mut self, buf: &[u8], base: usize, _c: usize, frame: Option<&MessageFrame>) -> Result<(), Violation> {
        if let Some(f) = frame {
            let rs = (f.frame_data().as_ptr() as usize).wrapping_sub(buf.as_ptr() as usize);
            // what the caller actually holds: the delivered object itself
            if rs <= buf.len() {
                let l = f.frame_len();
                if rs + l <= buf.len() && l >= 6 {
                    let want = ref_number(&buf[rs + 3..rs + l - 3]);
                    if f.message_number() != want {
                        return Err(Violation::new(
                            "C13",
                            "C13.b",
                            format!(
                                "delivery at abs {}: payload length {} with {} bytes following in the buffer: message_number() is {:?}, the frame's own bytes say {:?} (frame [{}])",
                                base + rs,
                                l - 6,
                                buf.len() - rs - l,
                                f.message_number(),
                                want,
                                short_hex(&buf[rs..rs + l])
                            ),
                        ));
                    }
                }
                self.delivered(buf, base, rs, l)?;
            }
        }
        Ok(())
    }
    fn on_iter(&mut self, buf: &[u8], base: usize, frames: &[(usize, usize)], _c: usize, _n: usize) -> Result<(), Violation> {
        for (rs, l) in frames {
            self.delivered(buf, base, *rs, *l)?;
        }
        Ok(())
    }
}

/// C13.d: a buffer that begins with a valid frame yields that frame (same
/// attributes, consumed = its own length) from the scanner and from the
/// iterator whatever follows it
pub fn check_c13_scanner(with: &[u8], flen: usize, what: &str) -> Result<(), Violation> {
    let r = catch_unwind(AssertUnwindSafe(|| {
        let (c, f) = next_msg_frame(with);
        let a = f.map(|f| ((f.frame_data().as_ptr() as usize).wrapping_sub(with.as_ptr() as usize), f.frame_len(), f.message_number(), f.crc(), f.data_len()));
        let mut it = MsgFrameIter::new(with);
        let g = (&mut it).next().map(|f| ((f.frame_data().as_ptr() as usize).wrapping_sub(with.as_ptr() as usize), f.frame_len(), f.message_number(), f.crc(), f.data_len()));
        (c, a, g, it.consumed())
    }));
    let l = flen - 6;
    let want_crc = ((with[flen - 3] as u32) << 16) | ((with[flen - 2] as u32) << 8) | with[flen - 1] as u32;
    let want = Some((0usize, flen, ref_number(&with[3..3 + l]), want_crc, l));
    match r {
        Ok((c, a, g, ic)) => {
            if c != flen || a != want || g != want || ic != flen {
                return Err::<(), Violation>(Violation::new(
                    "C13",
                    "C13.d",
                    format!(
                        "{}: valid frame of {} bytes (payload {}) followed by {} bytes: scanner returned consumed={} frame={:?}, iterator first={:?} consumed()={}; the frame's own bytes say {:?} (frame [{}], next byte {:?})",
                        what,
                        flen,
                        l,
                        with.len() - flen,
                        c,
                        a,
                        g,
                        ic,
                        want,
                        short_hex(&with[..flen]),
                        with.get(flen)
                    ),
                ));
            }
            Ok(())
        }
        Err(e) => return Err(Violation::new("C13", "C13.d", format!("{}: scanner panicked on a valid frame followed by {} bytes: {}", what, with.len() - flen, panic_text(&e)))),
    }?;
    // the same bytes in a receive buffer that is reused in place: first a frame-less content of
    // the same length is scanned at this address, then the buffer is overwritten with frame +
    // suffix and scanned again (the answer must not depend on what this address held before)
    if with.len() <= 4096 {
        let r2 = catch_unwind(AssertUnwindSafe(|| {
            let mut scratch = vec![0u8; with.len()];
            let first = next_msg_frame(&scratch).0;
            scratch.copy_from_slice(with);
            let (c, f) = next_msg_frame(&scratch);
            let a = f.map(|f| ((f.frame_data().as_ptr() as usize).wrapping_sub(scratch.as_ptr() as usize), f.frame_len(), f.message_number(), f.crc(), f.data_len()));
            (first, c, a)
        }));
        match r2 {
            Ok((_first, c, a)) => {
                if c != flen || a != want {
                    return Err(Violation::new(
                        "C13",
                        "C13.d",
                        format!(
                            "{}: valid frame of {} bytes followed by {} bytes, written into a buffer that was scanned before with other contents of the same length: scanner returned consumed={} frame={:?}; the frame's own bytes say {:?}",
                            what,
                            flen,
                            with.len() - flen,
                            c,
                            a,
                            want
                        ),
                    ));
                }
            }
            Err(e) => return Err(Violation::new("C13", "C13.d", format!("{}: scanner panicked on a reused buffer: {}", what, panic_text(&e)))),
        }
    }
    Ok(())
}

fn judge_c13(trace: &StreamTrace, mut stats: Option<&mut Stats>) -> Option<Violation> {
    // ground truth: intact frames of the stream, each with the suffix the stream gives it
    let mut pre_evals = 0u64;
    let mut done = 0;
    for s in &trace.segments {
        if !s.intact || done >= 12 {
            continue;
        }
        let with = &trace.stream[s.start..];
        if ref_accept(with) != Accept::Accept(s.len - 6) {
            continue;
        }
        done += 1;
        if let Err(v) = check_c13_scanner(with, s.len, &format!("intact frame '{}' at abs {} with the rest of the stream behind it", s.label, s.start)) {
            return Some(v);
        }
        // and with a one-byte and a two-byte suffix taken from the stream / fixed
        for sfx in [&[0x00u8][..], &[0xD3][..], &[0x41, 0x42][..]] {
            let mut v = trace.stream[s.start..s.start + s.len].to_vec();
            v.extend_from_slice(sfx);
            if let Err(e) = check_c13_scanner(&v, s.len, &format!("intact frame '{}' at abs {} with directed suffix {:02x?}", s.label, s.start, sfx)) {
                return Some(e);
            }
        }
        pre_evals += 4;
        if let Some(st) = stats.as_deref_mut() {
            st.probe("c13_scanner_suffix_independence");
        }
    }
    if let Some(st) = stats.as_deref_mut() {
        st.oracle_evals += pre_evals;
    }
    let fresh_thread = trace.segments.iter().any(|s| s.label.contains("family"));
    let pristine_decode = fresh_thread && (trace.origin.starts_with("directed") || trace.origin.contains("(directed"));
    let mut obs = C13Obs { stats: stats.as_deref_mut(), evals: 0, deliveries: 0, fresh_thread, pristine_decode, decoded: Vec::new() };
    let r = catch_unwind(AssertUnwindSafe(|| drive(trace, trace.rx_variant, "C13", &mut obs)));
    let mut evals = obs.evals;
    let decoded = std::mem::take(&mut obs.decoded);
    drop(obs);
    let res = match r {
        Ok(Ok(out)) => {
            if let Some(st) = stats.as_deref_mut() {
                st.scanner_calls += out.scans;
            }
            // the decoded message is a function of the frame's own bytes: decoding the delivered
            // frames again, each parsed alone and in REVERSE order, must give the same messages
            // (a decoder that carried something over from the previously decoded frame would not)
            let mut bad = None;
            // runs with a frame family: the same reverse pass once more on ONE fresh thread (its
            // thread-local state is pristine for the first frame it decodes, i.e. the last one
            // delivered, and differs from the stream-order context for all others)
            if fresh_thread && !decoded.is_empty() {
                let frames: Vec<Vec<u8>> = decoded.iter().rev().take(16).map(|(_, b, _)| b.clone()).collect();
                let got: Vec<String> = std::thread::Builder::new()
                    .stack_size(2 << 20)
                    .spawn(move || {
                        frames
                            .iter()
                            .map(|b| match real_new(b) {
                                Ok(Ok(f)) => msg_brief_full(&real_message(&f).1),
                                _ => String::from("<not a frame>"),
                            })
                            .collect::<Vec<String>>()
                    })
                    .ok()
                    .and_then(|h| h.join().ok())
                    .unwrap_or_default();
                for ((off, bytes, want), g) in decoded.iter().rev().take(16).zip(got.iter()) {
                    evals += 1;
                    if g != want && g != "<not a frame>" {
                        let cut = |s: &String| if s.len() > 70 { format!("{}..", &s[..70]) } else { s.clone() };
                        bad = Some(Violation::new(
                            "C13",
                            "C13.c",
                            format!(
                                "frame delivered at abs {} ({} bytes): decoded in stream order it gave {}, decoded on a fresh thread (after the later frames only) it gives {}",
                                off,
                                bytes.len(),
                                cut(want),
                                cut(g)
                            ),
                        ));
                        break;
                    }
                }
            }
            for (off, bytes, want) in decoded.iter().rev() {
                if bad.is_some() {
                    break;
                }
                evals += 1;
                let got = match real_new(bytes) {
                    Ok(Ok(f)) => msg_brief_full(&real_message(&f).1),
                    _ => continue,
                };
                if &got != want {
                    let cut = |s: &String| if s.len() > 70 { format!("{}..", &s[..70]) } else { s.clone() };
                    bad = Some(Violation::new(
                        "C13",
                        "C13.c",
                        format!(
                            "frame delivered at abs {} ({} bytes): decoded in stream order it gave {}, decoded again alone after the later frames it gives {}",
                            off,
                            bytes.len(),
                            cut(want),
                            cut(&got)
                        ),
                    ));
                    break;
                }
            }
            bad
        }
        Ok(Err(v)) => {
            if v.property == "C13" {
                Some(v)
            } else {
                if let Some(st) = stats.as_deref_mut() {
                    st.oos("scanner_breach_seen_by_other_check");
                }
                None
            }
        }
        Err(_) => {
            if let Some(st) = stats.as_deref_mut() {
                st.oos("scanner_panic_seen_by_other_check");
            }
            None
        }
    };
    if let Some(st) = stats {
        st.oracle_evals += evals;
    }
    res
}

// ---------------------------------------------------------------------------
// entry point
// ---------------------------------------------------------------------------

pub fn judge_stream(trace: &StreamTrace, prop: Prop, stats: Option<&mut Stats>) -> Option<Violation> {
    match prop {
        Prop::C03 => judge_c03(trace, stats),
        Prop::C04 => judge_c04(trace, stats),
        Prop::C05 => judge_c05(trace, stats),
        Prop::C06 => judge_c06(trace, stats),
        Prop::C13 => judge_c13(trace, stats),
    }
}
