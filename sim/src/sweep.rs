//! Systematic (non-sampled) parts: the C04 fault sweep carried by a
//! "retransmission storm" (the `dup` fault re-sends one frame N times, each
//! copy takes the next fault of the enumeration), and the C03 length sweep
//! (every L delivered byte by byte).

use crate::directed::{build, piece, Piece};
use crate::refmodel::make_frame;
use crate::rng::Rng;
use crate::stream::{c04_pattern_ok, foreign_payload, Prop};
use crate::trace::StreamTrace;
use crate::workload::{gen_frame, msg_numbers, GenSpec};
use rtcm_rs::prelude::MessageBuilder;

#[derive(Clone)]
pub struct CorpusFrame {
    pub label: String,
    pub bytes: Vec<u8>,
}

/// corpus of valid frames: `draws` generated frames per message type (real
/// encoder) + foreign frames of the given payload lengths
pub fn corpus(seed: u64, draws: u64, foreign_ls: &[usize]) -> Vec<CorpusFrame> {
    let mut out = Vec::new();
    let mut b = MessageBuilder::new();
    let root = Rng::from_seed(seed ^ 0xC04C_0404);
    for (ti, n) in msg_numbers().iter().enumerate() {
        let mut got = 0u64;
        let mut attempt = 0u64;
        while got < draws && attempt < draws * 4 {
            let mut r = root.fork_n("corpus", (ti as u64) * 1000 + attempt);
            let spec = GenSpec {
                msg: *n,
                gen_seed: r.next(),
                p_len_max: *r.pick(&[0.0, 0.0, 0.2, 1.0]),
                p_field_max: *r.pick(&[0.0, 0.05]),
                force: Vec::new(),
            };
            attempt += 1;
            if let Some(f) = gen_frame(&mut b, &spec) {
                // only frames the REFERENCE accepts are valid carriers for C04 faults
                if matches!(crate::refmodel::ref_accept(&f), crate::refmodel::Accept::Accept(l) if l + 6 == f.len()) {
                    out.push(CorpusFrame { label: format!("lib:{}#{}", n, got), bytes: f });
                    got += 1;
                }
            }
        }
    }
    let mut r = root.fork("foreign");
    for &l in foreign_ls {
        let (p, class) = foreign_payload(&mut r, l);
        let res = if r.chance(0.5) { 0 } else { r.range(1, 63) as u8 };
        out.push(CorpusFrame { label: format!("foreign:L={},r={},{}", l, res, class), bytes: make_frame(res, &p) });
    }
    out
}

#[derive(Default, Clone, Debug)]
pub struct SweepCounts {
    pub flip1: u64,
    pub flip1_exhaustive_frames: u64,
    pub flip2: u64,
    pub flip2_exhaustive_frames: u64,
    pub flip_odd: u64,
    pub burst: u64,
    pub burst_exhaustive_frames: u64,
}

pub struct SweepPlan {
    pub single_all_max_len: usize,
    pub single_sampled: usize,
    pub pairs_all_max_len: usize,
    pub pairs_sampled: usize,
    pub odd_sampled: usize,
    pub burst_all_max_len: usize,
    pub burst_starts_sampled: usize,
}

impl SweepPlan {
    pub fn quick() -> Self {
        SweepPlan { single_all_max_len: 64, single_sampled: 200, pairs_all_max_len: 8, pairs_sampled: 200, odd_sampled: 100, burst_all_max_len: 12, burst_starts_sampled: 8 }
    }
    pub fn thorough() -> Self {
        SweepPlan { single_all_max_len: 1029, single_sampled: 0, pairs_all_max_len: 16, pairs_sampled: 2000, odd_sampled: 200, burst_all_max_len: 128, burst_starts_sampled: 64 }
    }
}

fn allowed_bits(frame_len: usize) -> Vec<u32> {
    let mut v: Vec<u32> = (8..14).collect();
    v.extend(24..(frame_len * 8) as u32);
    v
}

/// enumerate the fault patterns for one frame according to the plan
pub fn faults_for(frame_len: usize, plan: &SweepPlan, r: &mut Rng, counts: &mut SweepCounts) -> Vec<(&'static str, Vec<u32>)> {
    let mut out: Vec<(&'static str, Vec<u32>)> = Vec::new();
    let allowed = allowed_bits(frame_len);
    let nbits = frame_len * 8;
    // single bits
    if frame_len <= plan.single_all_max_len {
        for b in &allowed {
            out.push(("flip1", vec![*b]));
        }
        counts.flip1 += allowed.len() as u64;
        counts.flip1_exhaustive_frames += 1;
    } else {
        // checksum and reserved bits always, the rest sampled
        for b in 8..14u32 {
            out.push(("flip1", vec![b]));
        }
        for b in (nbits - 24)..nbits {
            out.push(("flip1", vec![b as u32]));
        }
        for _ in 0..plan.single_sampled {
            out.push(("flip1", vec![*r.pick(&allowed)]));
        }
        counts.flip1 += 30 + plan.single_sampled as u64;
    }
    // pairs
    if frame_len <= plan.pairs_all_max_len {
        for i in 0..allowed.len() {
            for j in i + 1..allowed.len() {
                out.push(("flip2", vec![allowed[i], allowed[j]]));
            }
        }
        counts.flip2 += (allowed.len() * (allowed.len() - 1) / 2) as u64;
        counts.flip2_exhaustive_frames += 1;
    } else {
        let mut k = 0;
        while k < plan.pairs_sampled {
            let a = *r.pick(&allowed) as usize;
            let b = match r.below(7) {
                0 => a + 1,
                1 => a + 8,
                2 => a + 23,
                3 => a + 24,
                4 => a + 25,
                _ => *r.pick(&allowed) as usize,
            };
            if a == b || b >= nbits || !crate::stream::is_allowed(b, frame_len) {
                continue;
            }
            let mut v = vec![a as u32, b as u32];
            v.sort_unstable();
            out.push(("flip2", v));
            k += 1;
        }
        counts.flip2 += plan.pairs_sampled as u64;
    }
    // odd counts 3..=33
    if allowed.len() >= 3 {
        for _ in 0..plan.odd_sampled {
            let mut k = 3 + 2 * r.below(16) as usize;
            if k > allowed.len() {
                k = if allowed.len() % 2 == 1 { allowed.len() } else { allowed.len() - 1 };
            }
            let mut v: Vec<u32> = Vec::with_capacity(k);
            while v.len() < k {
                let b = *r.pick(&allowed);
                if !v.contains(&b) {
                    v.push(b);
                }
            }
            v.sort_unstable();
            out.push(("flip_odd", v));
        }
        counts.flip_odd += plan.odd_sampled as u64;
        // large odd counts, up to "every allowed bit" (or all but one when that count is even)
        let max_odd = if allowed.len() % 2 == 1 { allowed.len() } else { allowed.len() - 1 };
        let mut ks: Vec<usize> = vec![max_odd];
        for _ in 0..(plan.odd_sampled / 20).max(2) {
            let k = 35 + 2 * r.below(((max_odd.saturating_sub(35)) / 2 + 1) as u64) as usize;
            if k <= max_odd {
                ks.push(k);
            }
        }
        for k in ks {
            if k < 3 {
                continue;
            }
            // choose which bits stay unflipped (cheaper than choosing k of n when k is large)
            let mut keep = vec![true; allowed.len()];
            let mut drop = allowed.len() - k;
            while drop > 0 {
                let i = r.usize_below(allowed.len());
                if keep[i] {
                    keep[i] = false;
                    drop -= 1;
                }
            }
            let v: Vec<u32> = allowed.iter().zip(keep.iter()).filter(|(_, k)| **k).map(|(b, _)| *b).collect();
            out.push(("flip_odd", v));
            counts.flip_odd += 1;
        }
    }
    // bursts: span 2..=24 x start x {all-ones interior, random interior}
    let mut burst = |lo: usize, hi: usize, r: &mut Rng, all_starts: bool, out: &mut Vec<(&'static str, Vec<u32>)>, counts: &mut SweepCounts| {
        let max_span = (hi - lo).min(24);
        for span in 2..=max_span {
            let last_start = hi - span;
            let starts: Vec<usize> = if all_starts {
                (lo..=last_start).collect()
            } else {
                let mut v: Vec<usize> = (0..plan.burst_starts_sampled).map(|_| r.range(lo as u64, last_start as u64) as usize).collect();
                v.push(last_start); // ending exactly at the last checksum bit
                v.push(last_start.saturating_sub(24 - span.min(24)).max(lo));
                v
            };
            for s in starts {
                let ones: Vec<u32> = (s..s + span).map(|x| x as u32).collect();
                out.push(("burst", ones));
                counts.burst += 1;
                if span > 2 {
                    let mut v = vec![s as u32];
                    for i in 1..span - 1 {
                        if r.chance(0.5) {
                            v.push((s + i) as u32);
                        }
                    }
                    v.push((s + span - 1) as u32);
                    out.push(("burst", v));
                    counts.burst += 1;
                }
            }
        }
    };
    let all = frame_len <= plan.burst_all_max_len;
    burst(8, 14, r, true, &mut out, counts);
    burst(24, nbits, r, all, &mut out, counts);
    if all {
        counts.burst_exhaustive_frames += 1;
    }
    out
}

/// storms for one corpus frame: traces of at most ~60 KiB, each copy carrying one fault
pub fn storms_for(frame: &CorpusFrame, faults: &[(&'static str, Vec<u32>)], variant: u8, index: u64) -> Vec<StreamTrace> {
    let per = (60 * 1024 / frame.bytes.len()).max(1).min(512);
    let mut out = Vec::new();
    for (ci, chunk) in faults.chunks(per).enumerate() {
        let mut ps: Vec<Piece> = Vec::with_capacity(chunk.len() + 2);
        // an intact copy goes first: the damaged copies that follow then pass through the same
        // rover buffer positions an accepted frame has just occupied
        ps.push(piece(&format!("{}+dup", frame.label), "lib", frame.bytes.clone(), true));
        for (class, bits) in chunk {
            assert!(c04_pattern_ok(class, bits, frame.bytes.len()), "sweep produced a pattern outside its class: {} {:?}", class, bits);
            let mut p = piece(&format!("{}+dup+{}", frame.label, class), "lib", frame.bytes.clone(), false);
            for b in bits {
                p.bytes[*b as usize / 8] ^= 0x80 >> (*b % 8);
            }
            p.c04 = Some((class.to_string(), bits.clone()));
            ps.push(p);
        }
        // one intact copy gets through at the end
        ps.push(piece(&format!("{}+dup", frame.label), "lib", frame.bytes.clone(), true));
        let n: usize = ps.iter().map(|p| p.bytes.len()).sum();
        // chunking: alternate between frame-aligned+1 cuts and coarse cuts (PRNG-free)
        let step = match (index + ci as u64) % 4 {
            0 => frame.bytes.len() + 1,
            1 => 4096,
            2 => (frame.bytes.len() / 2).max(1),
            _ => n,
        };
        let cuts: Vec<usize> = (1..n).filter(|x| x % step == 0).collect();
        let mut t = build(Prop::C04, "storm", ps, cuts, vec![], variant, "storm");
        t.origin = format!("sweep:c04:{}:{}", frame.label, ci);
        t.run = index * 1000 + ci as u64;
        for c in &t.c04 {
            t.faults.push(crate::trace::FaultRec { kind: c.class.clone(), item: frame.label.clone(), detail: format!("bits={:?}", &c.bits[..c.bits.len().min(4)]) });
        }
        t.faults.push(crate::trace::FaultRec { kind: "dup".into(), item: frame.label.clone(), detail: format!("copies={}", t.segments.len()) });
        out.push(t);
    }
    out
}

/// C03 length sweep: frame of payload length L (three payload fills), followed
/// by a short frame, delivered one byte at a time
pub fn c03_length_trace(l: usize, fill: u8, variant: u8) -> StreamTrace {
    let payload: Vec<u8> = match fill {
        0 => vec![0u8; l],
        1 => vec![0xFFu8; l],
        _ => {
            let mut r = Rng::from_seed(0xC03 ^ ((l as u64) << 8));
            r.bytes(l)
        }
    };
    let res = if fill == 2 { (l % 64) as u8 } else { 0 };
    let ps = vec![
        piece(&format!("foreign:L={},r={},fill{}", l, res, fill), "foreign", make_frame(res, &payload), true),
        piece("foreign:L=2", "foreign", make_frame(0, &[0x3E, 0xD0]), true),
    ];
    let n: usize = ps.iter().map(|p| p.bytes.len()).sum();
    let mut t = build(Prop::C03, "length_sweep", ps, (1..n).collect(), vec![], variant, "every_byte");
    t.origin = format!("sweep:c03:L={},fill={}", l, fill);
    t.run = (l as u64) * 3 + fill as u64;
    t
}

/// short base streams whose *every* chunking (all 2^(n-1) cut sets) is enumerated
pub fn short_streams() -> Vec<(String, Vec<Piece>)> {
    let f = |l: usize, fill: u8| -> Piece {
        let payload: Vec<u8> = (0..l).map(|i| fill.wrapping_add(i as u8)).collect();
        piece(&format!("foreign:L={}", l), "foreign", make_frame(0, &payload), true)
    };
    let broken = |l: usize| -> Piece {
        let mut p = f(l, 0x21);
        let n = p.bytes.len();
        p.bytes[n - 1] ^= 0x40;
        p.intact = false;
        p.label = format!("nearmiss:crc_bit:L={}", l);
        p.kind = "nearmiss";
        p
    };
    let noise = |b: Vec<u8>| piece("noise:bytes", "noise", b, false);
    let mut nested_payload = vec![0x55];
    nested_payload.extend_from_slice(&make_frame(0, &[]));
    let nested_ok = piece("nested:valid_outer", "nested", make_frame(0, &nested_payload), true);
    let mut nested_broken = make_frame(0, &nested_payload);
    let nb = nested_broken.len();
    nested_broken[nb - 2] ^= 0x01;
    vec![
        ("L0_L1".to_string(), vec![f(0, 0), f(1, 0x9A)]),
        ("d3_L0_d300".to_string(), vec![noise(vec![0xD3]), f(0, 0), noise(vec![0xD3, 0x00])]),
        ("L2_L0".to_string(), vec![f(2, 0x3E), f(0, 0)]),
        ("brokenL1_L0".to_string(), vec![broken(1), f(0, 0)]),
        ("header_L0_L0".to_string(), vec![noise(vec![0xD3, 0x00, 0x01]), f(0, 0), f(0, 0)]),
        ("nested_ok_L0".to_string(), vec![nested_ok]),
        ("nested_broken".to_string(), vec![piece("nested:broken_outer", "nested", nested_broken, false)]),
        ("garbage_L1_garbage".to_string(), vec![noise(vec![0x00, 0xD3, 0x01]), f(1, 0xD3), noise(vec![0xD3])]),
    ]
}

pub fn clone_pieces(ps: &[Piece]) -> Vec<Piece> {
    ps.iter().map(|p| Piece { label: p.label.clone(), kind: p.kind, bytes: p.bytes.clone(), intact: p.intact, c04: p.c04.clone() }).collect()
}

/// the trace for cut set `mask` (bit i set = cut after byte i+1) of a short stream
pub fn chunking_trace(prop: Prop, name: &str, ps: &[Piece], mask: u64, variant: u8) -> StreamTrace {
    let n: usize = ps.iter().map(|p| p.bytes.len()).sum();
    let cuts: Vec<usize> = (1..n).filter(|i| (mask >> (i - 1)) & 1 == 1).collect();
    let mut t = build(prop, "all_chunkings", clone_pieces(ps), cuts, vec![], variant, "enumerated");
    t.origin = format!("sweep:chunkings:{}:{:#x}", name, mask);
    t.run = mask;
    t
}

/// All corruptions confined to the 24 checksum bits: every non-zero XOR pattern
/// whose top byte is `top` (65 536 patterns, 65 535 for top == 0). Any such
/// pattern is a single-bit error or a burst of span <= 24, i.e. inside C04's
/// guaranteed-detectable classes. Returns the first pattern the real framer
/// does not reject as NotValid, as a one-frame trace carrying its ground truth.
pub fn checksum_window_slice(frame: &CorpusFrame, top: u8, via_scanner: bool) -> (u64, Option<StreamTrace>) {
    use rtcm_rs::prelude::*;
    let n = frame.bytes.len();
    let mut buf = frame.bytes.clone();
    let mut scan_buf: Vec<u8> = Vec::with_capacity(n + 16);
    // complete candidates with a wrong checksum (L = 0 and L = 2)
    const DEAD_L0: [u8; 6] = [0xD3, 0x00, 0x00, 0x00, 0x00, 0x00];
    const DEAD_L2: [u8; 8] = [0xD3, 0x00, 0x02, 0x41, 0x42, 0x00, 0x00, 0x00];
    let mut done = 0u64;
    for low in 0..=0xFFFFu32 {
        let pat = ((top as u32) << 16) | low;
        if pat == 0 {
            continue;
        }
        buf[n - 3] = frame.bytes[n - 3] ^ (pat >> 16) as u8;
        buf[n - 2] = frame.bytes[n - 2] ^ (pat >> 8) as u8;
        buf[n - 1] = frame.bytes[n - 1] ^ pat as u8;
        done += 1;
        let mut rejected = matches!(std::panic::catch_unwind(std::panic::AssertUnwindSafe(|| MessageFrame::new(&buf).map(|_| ()))), Ok(Err(RtcmError::NotValid)));
        let mut prefix: &[u8] = &[];
        if rejected && via_scanner {
            // the same damaged frame behind a complete candidate that fails its checksum, in ONE
            // scanner call (state carried from one candidate to the next inside a call would show here)
            for pre in [&DEAD_L0[..], &DEAD_L2[..]] {
                scan_buf.clear();
                scan_buf.extend_from_slice(pre);
                scan_buf.extend_from_slice(&buf);
                let delivered_here = std::panic::catch_unwind(std::panic::AssertUnwindSafe(|| {
                    let (_c, f) = next_msg_frame(&scan_buf);
                    f.map(|f| (f.frame_data().as_ptr() as usize).wrapping_sub(scan_buf.as_ptr() as usize) == pre.len()).unwrap_or(false)
                }))
                .unwrap_or(false); // a scanner panic is a C05.f matter, not a delivery of this frame
                done += 1;
                if delivered_here {
                    rejected = false;
                    prefix = pre;
                    break;
                }
            }
        }
        if !rejected {
            let bits: Vec<u32> = (0..24u32).filter(|b| (pat >> (23 - b)) & 1 == 1).map(|b| (n as u32 - 3) * 8 + b).collect();
            let class = if bits.len() == 1 { "flip1" } else { "burst" };
            let mut p = piece(&format!("{}+{}", frame.label, class), "lib", buf.clone(), false);
            assert!(c04_pattern_ok(class, &bits, n));
            p.c04 = Some((class.to_string(), bits));
            let mut pieces = Vec::new();
            if !prefix.is_empty() {
                pieces.push(piece("noise:dead_candidate", "noise", prefix.to_vec(), false));
            }
            pieces.push(p);
            pieces.push(piece(&frame.label, "lib", frame.bytes.clone(), true));
            let mut t = build(Prop::C04, "checksum_window", pieces, vec![], vec![], 1, "one_shot");
            t.origin = format!("sweep:c04:checksum_window:{}:{:06x}", frame.label, pat);
            t.run = pat as u64;
            return (done, Some(t));
        }
    }
    (done, None)
}

/// Every burst of span <= 24 ANYWHERE in payload + checksum of a short frame: window start
/// `start_bit` (>= 24), all 2^23 patterns of 24 bits whose first bit is set (each burst is counted
/// at the window where it starts). Framer only. Returns the first accepted pattern as a trace.
pub fn sliding_window_slice(frame: &CorpusFrame, start_bit: usize) -> (u64, Option<StreamTrace>) {
    use rtcm_rs::prelude::*;
    let n = frame.bytes.len();
    let nbits = n * 8;
    let mut buf = frame.bytes.clone();
    let mut done = 0u64;
    let width = 24.min(nbits - start_bit);
    if width == 0 {
        return (0, None);
    }
    let top = 1u32 << (width - 1);
    for low in 0..top {
        let pat = top | low; // first bit of the window is flipped
        buf.copy_from_slice(&frame.bytes);
        for k in 0..width {
            if (pat >> (width - 1 - k)) & 1 == 1 {
                let b = start_bit + k;
                buf[b / 8] ^= 0x80 >> (b % 8);
            }
        }
        done += 1;
        let rejected = matches!(std::panic::catch_unwind(std::panic::AssertUnwindSafe(|| MessageFrame::new(&buf).map(|_| ()))), Ok(Err(RtcmError::NotValid)));
        if !rejected {
            let bits: Vec<u32> = (0..width).filter(|k| (pat >> (width - 1 - k)) & 1 == 1).map(|k| (start_bit + k) as u32).collect();
            let class = if bits.len() == 1 { "flip1" } else { "burst" };
            let mut p = piece(&format!("{}+{}", frame.label, class), "lib", buf.clone(), false);
            assert!(c04_pattern_ok(class, &bits, n));
            p.c04 = Some((class.to_string(), bits));
            let mut t = build(Prop::C04, "sliding_window", vec![p, piece(&frame.label, "lib", frame.bytes.clone(), true)], vec![], vec![], 1, "one_shot");
            t.origin = format!("sweep:c04:sliding_window:{}:{}:{:06x}", frame.label, start_bit, pat);
            t.run = ((start_bit as u64) << 24) | pat as u64;
            return (done, Some(t));
        }
    }
    (done, None)
}

/// A damaged frame followed by every possible 3-byte continuation (top byte fixed per slice) and
/// three more bytes: whatever follows a damaged frame, it stays NotValid. (On correct code the
/// bytes behind a candidate are not looked at; a framer whose digest range or checksum position
/// depends on the slice end would accept one continuation in 2^24.) Returns the accepted buffer.
pub fn continuation_slice(damaged: &[u8], top: u8) -> (u64, Option<Vec<u8>>) {
    use rtcm_rs::prelude::*;
    let n = damaged.len();
    let mut buf = damaged.to_vec();
    buf.extend_from_slice(&[top, 0, 0, 0, 0, 0]);
    let mut done = 0u64;
    for low in 0..=0xFFFFu32 {
        buf[n + 1] = (low >> 8) as u8;
        buf[n + 2] = low as u8;
        for tail in [0usize, 3] {
            done += 1;
            let slice = &buf[..n + 3 + tail];
            let rejected = matches!(std::panic::catch_unwind(std::panic::AssertUnwindSafe(|| MessageFrame::new(slice).map(|_| ()))), Ok(Err(RtcmError::NotValid)));
            if !rejected {
                return (done, Some(slice.to_vec()));
            }
        }
    }
    (done, None)
}
