//! Worker pool: worker threads only run *different* runs in parallel; a run is
//! single-threaded and a pure function of (master seed, run index). The failure
//! that gets reported is the one with the lowest index, independent of timing.

use crate::builder::BuilderTrace;
use crate::stats::Stats;
use crate::trace::{StreamTrace, Violation};
use std::sync::atomic::{AtomicU64, Ordering};
use std::sync::Mutex;

#[derive(Clone, Debug)]
pub enum Payload {
    Stream(StreamTrace),
    Builder(BuilderTrace),
}

pub struct Failure {
    pub index: u64,
    pub violation: Violation,
    pub payload: Payload,
}

pub fn par_run<F>(n: u64, jobs: usize, f: F) -> (Stats, Option<Failure>)
where
    F: Fn(u64, &mut Stats) -> Option<(Violation, Payload)> + Sync,
{
    let next = AtomicU64::new(0);
    let min_fail = AtomicU64::new(u64::MAX);
    let fail: Mutex<Option<Failure>> = Mutex::new(None);
    let merged: Mutex<Stats> = Mutex::new(Stats::default());
    let jobs = jobs.max(1);
    std::thread::scope(|sc| {
        for _ in 0..jobs {
            sc.spawn(|| {
                let mut st = Stats::default();
                loop {
                    let i = next.fetch_add(1, Ordering::Relaxed);
                    if i >= n || i > min_fail.load(Ordering::Relaxed) {
                        break;
                    }
                    if let Some((v, p)) = f(i, &mut st) {
                        min_fail.fetch_min(i, Ordering::Relaxed);
                        let mut g = fail.lock().unwrap();
                        let better = match &*g {
                            None => true,
                            Some(old) => i < old.index,
                        };
                        if better {
                            *g = Some(Failure { index: i, violation: v, payload: p });
                        }
                    }
                }
                merged.lock().unwrap().merge(st);
            });
        }
    });
    (merged.into_inner().unwrap(), fail.into_inner().unwrap())
}
