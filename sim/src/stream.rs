//! Phase 1 of a run: PRNG-driven generation of a faulted byte stream and of the
//! rover's read schedule, by a small discrete-event simulation of
//! station(s) -> mux -> channel (fault processes, line clock) -> rover reads.
//! The rover's *scanning* code runs in phase 2 (judge.rs) over the recorded trace.

use crate::refmodel::{crc24q, make_frame, ref_accept, Accept};
use crate::rng::{Digest, Rng};
use crate::trace::{C04Target, FaultRec, Segment, StreamTrace};
use crate::workload::{built_frame, gen_frame, msg_numbers, GenSpec};
use rtcm_rs::prelude::MessageBuilder;
use std::collections::BinaryHeap;

pub const MAX_STREAM: usize = 64 * 1024;
/// upper bound of the rare `huge` runs whose buffers cross the 64 KiB mark
pub const MAX_STREAM_HUGE: usize = 256 * 1024;
pub const MAX_EVENTS: u64 = 50_000;

#[derive(Clone, Copy, Debug, PartialEq, Eq)]
pub enum Prop {
    C03,
    C04,
    C05,
    C06,
    C13,
}

impl Prop {
    pub fn id(&self) -> &'static str {
        match self {
            Prop::C03 => "C03",
            Prop::C04 => "C04",
            Prop::C05 => "C05",
            Prop::C06 => "C06",
            Prop::C13 => "C13",
        }
    }
    pub fn parse(s: &str) -> Option<Prop> {
        Some(match s {
            "C03" => Prop::C03,
            "C04" => Prop::C04,
            "C05" => Prop::C05,
            "C06" => Prop::C06,
            "C13" => Prop::C13,
            _ => return None,
        })
    }
}

#[derive(Clone, Debug)]
pub struct Item {
    pub label: String,
    pub kind: &'static str,
    pub bytes: Vec<u8>,
    /// complete valid frame at generation time
    pub frame: bool,
    pub touched: bool,
    pub locked: bool,
    pub c04: Option<(String, Vec<u32>)>,
    /// epoch (emission slot) for the timing model
    pub epoch: u32,
}

impl Item {
    fn new(label: String, kind: &'static str, bytes: Vec<u8>, frame: bool) -> Item {
        Item { label, kind, bytes, frame, touched: false, locked: false, c04: None, epoch: 0 }
    }
}

#[derive(Clone, Debug)]
pub struct Cfg {
    pub n_items: usize,
    pub w_lib: u32,
    pub w_built: u32,
    pub w_foreign: u32,
    pub w_nearmiss: u32,
    pub w_nested: u32,
    pub w_noise: u32,
    pub msg_subset: Vec<u16>,
    pub p_len_max: f64,
    pub p_field_max: f64,
    pub fault_free: bool,
    /// per-item probability for each structural / bit fault kind (0 = disabled in this run)
    pub r_drop: f64,
    pub r_trunc: f64,
    pub r_insert: f64,
    pub r_dup: f64,
    pub r_swap: f64,
    pub r_flip: f64,
    pub r_burst_long: f64,
    pub r_hdr_len: f64,
    pub r_hdr_pre: f64,
    pub r_c04: f64,
    pub strategy: &'static str,
    pub rx_variant: u8,
    pub n_restarts: usize,
    pub baud: u32,
    pub poll_ns: u64,
    pub read_limit: usize,
    pub p_stall: f64,
    pub chunk_mean: f64,
    pub small_l_bias: bool,
    pub tail_long_header: bool,
    /// rare swarm knob: a stream of 66..200 KiB delivered in one piece or in very large chunks, so that
    /// the buffers handed to the scanner are longer than 65535 bytes
    pub huge: bool,
    pub max_stream: usize,
    pub epoch_hz: u32,
    pub burst_max: u32,
}

const SPECIAL_L: [usize; 24] = [0, 1, 2, 3, 4, 5, 6, 7, 8, 15, 16, 32, 64, 127, 128, 255, 256, 257, 511, 512, 1020, 1021, 1022, 1023];
const BAUDS: [u32; 7] = [9600, 19200, 38400, 57600, 115200, 460800, 921600];
const READ_LIMITS: [usize; 9] = [1, 2, 3, 7, 16, 64, 256, 4096, usize::MAX];
const CHUNK_MEANS: [f64; 5] = [1.5, 4.0, 32.0, 300.0, 2000.0];

pub fn draw_cfg(prop: Prop, r: &mut Rng) -> Cfg {
    let all = msg_numbers();
    // swarm: subset of message types
    let subset_size = match r.below(4) {
        0 => 1,
        1 => r.range(2, 6) as usize,
        2 => r.range(6, 30) as usize,
        _ => all.len(),
    }
    .min(all.len());
    let mut msg_subset: Vec<u16> = Vec::with_capacity(subset_size);
    if subset_size == all.len() {
        msg_subset.extend_from_slice(all);
    } else {
        for _ in 0..subset_size {
            msg_subset.push(*r.pick(all));
        }
    }
    let mut n_items = (r.geometric(6.0) as usize).min(200).max(1);
    let fault_free = r.chance(0.10);
    let mut on = |p_enable: f64, r: &mut Rng, rates: &[f64]| -> f64 {
        if fault_free || !r.chance(p_enable) {
            0.0
        } else {
            *r.pick(rates)
        }
    };
    let rates = [0.03, 0.1, 0.25];
    let r_drop = on(0.4, r, &rates);
    let r_trunc = on(0.4, r, &rates);
    let r_insert = on(0.4, r, &rates);
    let r_dup = on(0.3, r, &rates);
    let r_swap = on(0.2, r, &rates);
    let r_flip = on(0.5, r, &rates);
    let r_burst_long = on(0.3, r, &rates);
    let r_hdr_len = on(0.4, r, &rates);
    let r_hdr_pre = on(0.3, r, &rates);
    let mut r_c04 = on(0.3, r, &[0.1, 0.3, 0.6]);
    let strategies: &[&'static str] = match prop {
        Prop::C03 => &["every_byte", "every_byte", "aimed", "random_sizes", "timing", "one_shot"],
        Prop::C04 => &["aimed", "random_sizes", "timing", "one_shot", "every_byte"],
        Prop::C05 => &["aimed", "random_sizes", "timing", "one_shot", "every_byte", "timing"],
        Prop::C06 => &["aimed", "aimed", "random_sizes", "timing", "every_byte", "timing"],
        Prop::C13 => &["aimed", "aimed", "random_sizes", "timing", "timing", "one_shot"],
    };
    let strategy = *r.pick(strategies);
    let mut w = (4u32, 2u32, 4u32, 2u32, 1u32, 3u32);
    let mut small_l_bias = false;
    match prop {
        Prop::C03 => {
            w = (3, 1, 5, 5, 1, 2);
        }
        Prop::C04 => {
            if !fault_free {
                r_c04 = *r.pick(&[0.3, 0.6, 0.9]);
            }
            w = (5, 2, 5, 1, 1, 2);
        }
        Prop::C05 => {
            w = (4, 1, 4, 3, 3, 4);
        }
        Prop::C06 => {}
        Prop::C13 => {
            small_l_bias = true;
            w = (4, 2, 6, 1, 1, 2);
        }
    }
    // swarm: sometimes silence a whole item class
    let mut ws = [w.0, w.1, w.2, w.3, w.4, w.5];
    for x in ws.iter_mut() {
        if r.chance(0.15) {
            *x = 0;
        }
    }
    if ws.iter().all(|x| *x == 0) {
        ws[2] = 1;
    }
    let n_restarts = match prop {
        Prop::C06 | Prop::C05 => {
            if r.chance(0.3) {
                r.range(1, 3) as usize
            } else {
                0
            }
        }
        _ => {
            if r.chance(0.1) {
                1
            } else {
                0
            }
        }
    };
    let baud = *r.pick(&BAUDS);
    let byte_ns = 10_000_000_000u64 / baud as u64;
    let poll_ns = match r.below(5) {
        0 => byte_ns,
        1 => 1_000_000,
        2 => 10_000_000,
        3 => 100_000_000,
        _ => 1_000_000_000,
    };
    // drawn last and from its own sub-stream so that adding this knob did not shift earlier draws
    let mut hr = r.fork("huge");
    let huge = hr.chance(0.015);
    let mut max_stream = MAX_STREAM;
    let mut strategy = strategy;
    let mut chunk_mean_override: Option<f64> = None;
    if huge {
        max_stream = hr.range(66 * 1024, 200 * 1024) as usize;
        n_items = 4000;
        for x in ws.iter_mut() {
            if *x == 0 {
                *x = 1;
            }
        }
        ws[0] += 6;
        ws[2] += 6;
        strategy = if hr.chance(0.5) { "one_shot" } else { "random_sizes" };
        chunk_mean_override = Some(*hr.pick(&[20_000.0, 40_000.0, 70_000.0]));
    }
    Cfg {
        n_items,
        w_lib: ws[0],
        w_built: ws[1],
        w_foreign: ws[2],
        w_nearmiss: ws[3],
        w_nested: ws[4],
        w_noise: ws[5],
        msg_subset,
        p_len_max: *r.pick(&[0.0, 0.0, 0.05, 0.3, 1.0]),
        p_field_max: *r.pick(&[0.0, 0.0, 0.01, 0.2]),
        fault_free,
        r_drop,
        r_trunc,
        r_insert,
        r_dup,
        r_swap,
        r_flip,
        r_burst_long,
        r_hdr_len,
        r_hdr_pre,
        r_c04,
        strategy,
        rx_variant: if prop == Prop::C06 { r.range(1, 4) as u8 } else { r.range(1, 5) as u8 },
        n_restarts,
        baud,
        poll_ns,
        read_limit: *r.pick(&READ_LIMITS),
        p_stall: *r.pick(&[0.0, 0.0, 0.02, 0.1]),
        chunk_mean: { let c = *r.pick(&CHUNK_MEANS); chunk_mean_override.unwrap_or(c) },
        small_l_bias,
        tail_long_header: r.chance(0.08),
        huge,
        max_stream,
        epoch_hz: *r.pick(&[1, 5, 10]),
        burst_max: r.range(1, 8) as u32,
    }
}

// ---------------------------------------------------------------------------
// item generation
// ---------------------------------------------------------------------------

pub struct Station {
    pub builder: MessageBuilder,
    pub gen_failures: u64,
}

impl Station {
    pub fn new() -> Self {
        Station { builder: MessageBuilder::new(), gen_failures: 0 }
    }
}

fn pick_l(r: &mut Rng, small_bias: bool) -> usize {
    if small_bias && r.chance(0.4) {
        return r.below(3) as usize; // 0,1,2
    }
    match r.below(10) {
        0..=3 => *r.pick(&SPECIAL_L),
        4..=7 => (r.geometric(40.0) as usize - 1).min(1023),
        _ => r.below(1024) as usize,
    }
}

pub fn foreign_payload(r: &mut Rng, l: usize) -> (Vec<u8>, &'static str) {
    let class = r.below(7);
    let mut p = vec![0u8; l];
    let name = match class {
        0 => "zeros",
        1 => {
            p.iter_mut().for_each(|b| *b = 0xFF);
            "ones"
        }
        2 => {
            r.fill(&mut p);
            "random"
        }
        3 => {
            p.iter_mut().for_each(|b| *b = 0xD3);
            "d3fill"
        }
        4 => {
            // looks like headers
            r.fill(&mut p);
            let mut i = 0;
            while i + 3 <= l {
                p[i] = 0xD3;
                p[i + 1] = 0;
                p[i + 2] = r.below(20) as u8;
                i += 3 + r.below(12) as usize;
            }
            "headerlike"
        }
        5 => {
            r.fill(&mut p);
            if l >= 2 {
                let n = *r.pick(msg_numbers());
                p[0] = (n >> 4) as u8;
                p[1] = ((n & 0xF) << 4) as u8 | (p[1] & 0x0F);
            }
            "supnum"
        }
        _ => {
            r.fill(&mut p);
            if l >= 2 {
                let n = *r.pick(&[0u16, 1, 999, 1000, 1018, 1150, 4095, 4094, 2000]);
                p[0] = (n >> 4) as u8;
                p[1] = ((n & 0xF) << 4) as u8 | (p[1] & 0x0F);
            }
            "unsupnum"
        }
    };
    (p, name)
}

fn gen_lib(st: &mut Station, cfg: &Cfg, r: &mut Rng, built: bool) -> Option<Item> {
    for _ in 0..3 {
        let spec = GenSpec {
            msg: *r.pick(&cfg.msg_subset),
            gen_seed: r.next(),
            p_len_max: cfg.p_len_max,
            p_field_max: cfg.p_field_max,
            force: Vec::new(),
        };
        let f = if built { built_frame(&mut st.builder, &spec) } else { gen_frame(&mut st.builder, &spec) };
        match f {
            Some(bytes) => {
                let kind = if built { "built" } else { "lib" };
                return Some(Item::new(format!("{}:{}", kind, spec.msg), kind, bytes, true));
            }
            None => st.gen_failures += 1,
        }
    }
    None
}

/// CRC-valid frame whose payload is a real encoder payload cut 1..8 bytes short (or, rarely,
/// extended by a few bytes): alone it decodes to Corrupt / a shorter message; what must not
/// happen is that bytes BEHIND the frame complete it (C13.c)
fn gen_truncated_lib(st: &mut Station, cfg: &Cfg, r: &mut Rng) -> Option<Item> {
    let it = gen_lib(st, cfg, r, false)?;
    let n = it.bytes.len();
    let payload = &it.bytes[3..n - 3];
    if payload.len() < 4 {
        return None;
    }
    let k = (r.range(1, 8) as usize).min(payload.len() - 2);
    let cut = &payload[..payload.len() - k];
    Some(Item::new(format!("foreign:L={},r=0,truncated_{}_by_{}", cut.len(), it.label, k), "foreign", make_frame(0, cut), true))
}

/// A "family": CRC-valid frames derived from ONE encoder frame by flipping a few payload bits
/// (mutation) and by splicing two family members at a byte boundary (crossover), all the same
/// type and length. Consecutive near-duplicates are what a decoder that memoised anything keyed
/// on part of the content would confuse; alone each of them has one correct decoding.
fn gen_family(st: &mut Station, cfg: &Cfg, r: &mut Rng) -> Vec<Item> {
    let Some(base) = gen_lib(st, cfg, r, false) else { return vec![] };
    let n = base.bytes.len();
    if n < 12 {
        return vec![base];
    }
    let p0: Vec<u8> = base.bytes[3..n - 3].to_vec();
    let mut members: Vec<Vec<u8>> = vec![p0.clone()];
    let k = r.range(2, 5) as usize;
    for _ in 0..k {
        let parent = members[r.usize_below(members.len())].clone();
        let child = if members.len() >= 2 && r.chance(0.4) {
            let other = &members[r.usize_below(members.len())];
            // crossover at an arbitrary BIT position (fields are not byte aligned)
            let cut = r.range(13, (parent.len() * 8 - 1) as u64) as usize;
            let mut c = other.clone();
            c[..cut / 8].copy_from_slice(&parent[..cut / 8]);
            if cut % 8 != 0 {
                let keep = 0xFFu8 << (8 - cut % 8);
                c[cut / 8] = (parent[cut / 8] & keep) | (other[cut / 8] & !keep);
            }
            c
        } else {
            let mut c = parent.clone();
            for _ in 0..r.range(1, 8) {
                // never touch the 12-bit message number
                let bit = r.range(12, (c.len() * 8 - 1) as u64) as usize;
                c[bit / 8] ^= 0x80 >> (bit % 8);
            }
            if r.chance(0.3) {
                // wipe a whole field-sized run of bytes
                let a = r.range(2, (c.len() - 1) as u64) as usize;
                let e = (a + r.range(1, 6) as usize).min(c.len());
                for x in c[a..e].iter_mut() {
                    *x = 0;
                }
            }
            c
        };
        members.push(child);
    }
    let mut out = Vec::new();
    let tag = base.label.clone();
    // base, derived members, and the base again at the end
    let order: Vec<usize> = (0..members.len()).chain(std::iter::once(0)).collect();
    for (j, i) in order.iter().enumerate() {
        let mut it = Item::new(format!("foreign:family{}of:{}", j, tag), "foreign", make_frame(0, &members[*i]), true);
        it.epoch = 0;
        out.push(it);
    }
    out
}

fn gen_foreign(cfg: &Cfg, r: &mut Rng) -> Item {
    let l = pick_l(r, cfg.small_l_bias);
    let reserved = if r.chance(0.5) { 0 } else { r.range(1, 63) as u8 };
    let (p, class) = foreign_payload(r, l);
    // rare coincidences nobody samples by accident: a valid frame whose checksum is all zeros,
    // all ones, starts with 0xD3 (so the frame's tail looks like the next preamble/header), or
    // equals its own first payload bytes
    if l >= 3 && r.chance(0.02) {
        // an "inner checksum": the payload ends with the CRC-24Q of everything before it, as if an
        // encoder had counted the checksum in the length field; the real checksum follows as usual
        let mut v = vec![0xD3, ((reserved & 0x3F) << 2) | ((l >> 8) as u8 & 3), l as u8];
        v.extend_from_slice(&p[..l - 3]);
        let c = crc24q(&v);
        let mut q = p[..l - 3].to_vec();
        q.extend_from_slice(&[(c >> 16) as u8, (c >> 8) as u8, c as u8]);
        return Item::new(format!("foreign:L={},r={},inner_crc", l, reserved), "foreign", make_frame(reserved, &q), true);
    }
    if l >= 3 && r.chance(0.08) {
        let target: u32 = match r.below(7) {
            0 => 0x000000,
            1 => 0xFFFFFF,
            2 => 0xD30000,
            3 => 0xD30000 | r.below(0x400) as u32,
            4 => 0xD3D3D3,
            5 => 0x00D300 | r.below(4) as u32,
            _ => ((p[0] as u32) << 16) | ((p[1] as u32) << 8) | p[2] as u32,
        };
        if let Some(f) = crate::refmodel::make_frame_with_crc(reserved, &p, target) {
            return Item::new(format!("foreign:L={},r={},crc={:06x}", l, reserved, target), "foreign", f, true);
        }
    }
    Item::new(format!("foreign:L={},r={},{}", l, reserved, class), "foreign", make_frame(reserved, &p), true)
}

fn base_frame(st: &mut Station, cfg: &Cfg, r: &mut Rng) -> Vec<u8> {
    if r.chance(0.5) && cfg.w_lib + cfg.w_built > 0 {
        if let Some(it) = gen_lib(st, cfg, r, false) {
            return it.bytes;
        }
    }
    gen_foreign(cfg, r).bytes
}

fn gen_nearmiss(st: &mut Station, cfg: &Cfg, r: &mut Rng) -> Item {
    let mut f = base_frame(st, cfg, r);
    let n = f.len();
    let what = match r.below(9) {
        8 => {
            // wrong preamble, but the checksum is computed over it (a sender with a different sync byte)
            let v = match r.below(3) {
                0 => *r.pick(&[0xD7u8, 0xDB, 0xDF, 0xF3, 0xF7, 0xFB, 0xFF, 0xD2, 0x53, 0x93, 0xC3, 0xD1]),
                _ => {
                    let mut v = r.below(255) as u8;
                    if v >= 0xD3 {
                        v += 1;
                    }
                    v
                }
            };
            f[0] = v;
            let c = crc24q(&f[..n - 3]);
            f[n - 3] = (c >> 16) as u8;
            f[n - 2] = (c >> 8) as u8;
            f[n - 1] = c as u8;
            "preamble_crc_ok"
        }
        0 => {
            let bit = r.below(24) as usize;
            f[n - 3 + bit / 8] ^= 0x80 >> (bit % 8);
            "crc_bit"
        }
        1 => {
            let i = n - 3 + r.below(3) as usize;
            f[i] = f[i].wrapping_add(r.range(1, 255) as u8);
            "crc_byte"
        }
        2 => {
            let l = (((f[1] & 3) as usize) << 8) | f[2] as usize;
            let l2 = (l + 1) & 0x3FF;
            f[1] = (f[1] & 0xFC) | ((l2 >> 8) as u8);
            f[2] = l2 as u8;
            "len_plus"
        }
        3 => {
            let l = (((f[1] & 3) as usize) << 8) | f[2] as usize;
            let l2 = (l + 1023) & 0x3FF;
            f[1] = (f[1] & 0xFC) | ((l2 >> 8) as u8);
            f[2] = l2 as u8;
            "len_minus"
        }
        4 => {
            let bit = 14 + r.below(10) as usize;
            f[bit / 8] ^= 0x80 >> (bit % 8);
            "len_bit"
        }
        5 => {
            let mut v = r.below(255) as u8;
            if v >= 0xD3 {
                v += 1;
            }
            f[0] = v;
            "preamble"
        }
        6 => {
            f.truncate(3);
            "header_only"
        }
        _ => {
            let k = r.range(1, (n - 1) as u64) as usize;
            f.truncate(k);
            "prefix"
        }
    };
    Item::new(format!("nearmiss:{}", what), "nearmiss", f, false)
}

fn gen_nested(st: &mut Station, cfg: &Cfg, r: &mut Rng) -> Item {
    // inner: a short valid frame
    let inner = loop {
        let f = if r.chance(0.5) {
            let l = r.below(40) as usize;
            let (p, _) = foreign_payload(r, l);
            make_frame(0, &p)
        } else {
            base_frame(st, cfg, r)
        };
        if f.len() <= 900 {
            break f;
        }
    };
    let room = 1023 - inner.len();
    let a = r.below((room.min(30) + 1) as u64) as usize;
    let b = r.below(((room - a).min(30) + 1) as u64) as usize;
    let mut payload = r.bytes(a);
    // keep padding free of 0xD3 so ground truth stays simple
    payload.iter_mut().for_each(|x| {
        if *x == 0xD3 {
            *x = 0x55
        }
    });
    payload.extend_from_slice(&inner);
    let mut padb = r.bytes(b);
    padb.iter_mut().for_each(|x| {
        if *x == 0xD3 {
            *x = 0x55
        }
    });
    payload.extend_from_slice(&padb);
    let mut outer = make_frame(0, &payload);
    let mode = r.below(3);
    let n = outer.len();
    let (label, frame) = match mode {
        0 => ("nested:valid_outer", true),
        1 => {
            let bit = r.below(24) as usize;
            outer[n - 3 + bit / 8] ^= 0x80 >> (bit % 8);
            ("nested:broken_outer", false)
        }
        _ => {
            // outer cut after the inner frame is complete
            let min_keep = 3 + a + inner.len();
            let keep = r.range(min_keep as u64, (n - 1) as u64) as usize;
            outer.truncate(keep);
            ("nested:incomplete_outer", false)
        }
    };
    Item::new(label.to_string(), "nested", outer, frame)
}

pub fn nmea(r: &mut Rng) -> Vec<u8> {
    let body = format!(
        "GNGGA,{:02}{:02}{:02}.00,{:04}.{:05},N,{:05}.{:05},E,{},{:02},0.{},{}.{},M,{}.0,M,,",
        r.below(24),
        r.below(60),
        r.below(60),
        r.below(9000),
        r.below(100000),
        r.below(18000),
        r.below(100000),
        r.below(6),
        r.below(40),
        r.below(99),
        r.below(999),
        r.below(10),
        r.below(60)
    );
    let mut ck = 0u8;
    for b in body.bytes() {
        ck ^= b;
    }
    format!("${}*{:02X}\r\n", body, ck).into_bytes()
}

pub fn ubx(r: &mut Rng) -> Vec<u8> {
    let n = r.below(60) as usize;
    let mut v = vec![0xB5, 0x62, r.below(256) as u8, r.below(256) as u8, n as u8, 0];
    v.extend_from_slice(&r.bytes(n));
    let (mut a, mut b) = (0u8, 0u8);
    for x in &v[2..] {
        a = a.wrapping_add(*x);
        b = b.wrapping_add(a);
    }
    v.push(a);
    v.push(b);
    v
}

fn gen_noise(r: &mut Rng) -> Item {
    let (label, bytes): (&str, Vec<u8>) = match r.below(9) {
        0 => ("noise:nmea", nmea(r)),
        1 => ("noise:ubx", ubx(r)),
        2 => {
            let n = r.geometric(30.0) as usize;
            ("noise:random", r.bytes(n.min(2000)))
        }
        3 => {
            let n = r.geometric(20.0) as usize;
            let mut v = r.bytes(n.min(600));
            for x in v.iter_mut() {
                if r.chance(0.25) {
                    *x = 0xD3;
                }
            }
            ("noise:d3heavy", v)
        }
        4 => ("noise:zeros", vec![0u8; r.geometric(10.0) as usize]),
        5 => ("noise:long_header", vec![0xD3, 0x03, 0xFF]),
        6 => ("noise:lone_d3", vec![0xD3]),
        7 => ("noise:d3_short", vec![0xD3, 0x00]),
        _ => {
            // header announcing a medium body followed by less than that
            let l = r.range(10, 300) as usize;
            let mut v = vec![0xD3, (l >> 8) as u8, l as u8];
            let k = r.below(l as u64) as usize;
            v.extend_from_slice(&r.bytes(k));
            ("noise:short_body", v)
        }
    };
    Item::new(label.to_string(), "noise", bytes, false)
}

pub fn gen_items(cfg: &Cfg, st: &mut Station, r: &mut Rng) -> Vec<Item> {
    let mut items: Vec<Item> = Vec::new();
    let total = cfg.w_lib + cfg.w_built + cfg.w_foreign + cfg.w_nearmiss + cfg.w_nested + cfg.w_noise;
    let mut size = 0usize;
    let mut epoch = 0u32;
    let mut left_in_burst = r.range(1, cfg.burst_max as u64) as u32;
    for _ in 0..cfg.n_items {
        let mut x = r.below(total as u64) as u32;
        let mut it = if x < cfg.w_lib {
            gen_lib(st, cfg, r, false).unwrap_or_else(|| gen_foreign(cfg, r))
        } else {
            x -= cfg.w_lib;
            if x < cfg.w_built {
                gen_lib(st, cfg, r, true).unwrap_or_else(|| gen_foreign(cfg, r))
            } else {
                x -= cfg.w_built;
                if x < cfg.w_foreign {
                    if cfg.w_lib + cfg.w_built > 0 && r.chance(0.12) {
                        gen_truncated_lib(st, cfg, r).unwrap_or_else(|| gen_foreign(cfg, r))
                    } else {
                        gen_foreign(cfg, r)
                    }
                } else {
                    x -= cfg.w_foreign;
                    if x < cfg.w_nearmiss {
                        gen_nearmiss(st, cfg, r)
                    } else {
                        x -= cfg.w_nearmiss;
                        if x < cfg.w_nested {
                            gen_nested(st, cfg, r)
                        } else {
                            gen_noise(r)
                        }
                    }
                }
            }
        };
        if size + it.bytes.len() > cfg.max_stream - 4096 {
            break;
        }
        size += it.bytes.len();
        it.epoch = epoch;
        if left_in_burst <= 1 {
            epoch += 1;
            left_in_burst = r.range(1, cfg.burst_max as u64) as u32;
        } else {
            left_in_burst -= 1;
        }
        items.push(it);
    }
    if cfg.w_lib + cfg.w_built > 0 && size < cfg.max_stream / 2 {
        let mut fr = r.fork("family");
        if fr.chance(0.12) {
            let fam = gen_family(st, cfg, &mut fr);
            let pos = fr.usize_below(items.len() + 1);
            let e = if pos < items.len() { items[pos].epoch } else { epoch };
            for (j, mut it) in fam.into_iter().enumerate() {
                it.epoch = e;
                items.insert(pos + j, it);
            }
        }
    }
    if cfg.small_l_bias {
        // C13 profile: an L=0 and an L=1 frame in every run, at random places
        for l in [0usize, 1] {
            let (p, class) = foreign_payload(r, l);
            let res = if r.chance(0.7) { 0 } else { r.range(1, 63) as u8 };
            let mut it = Item::new(format!("foreign:L={},r={},{}", l, res, class), "foreign", make_frame(res, &p), true);
            let pos = r.usize_below(items.len() + 1);
            it.epoch = if pos < items.len() { items[pos].epoch } else { epoch };
            items.insert(pos, it);
        }
    }
    if cfg.huge {
        // bulk garbage: one or two blocks of more than 64 KiB in front of later frames, so that the
        // position of a frame *inside one scanned buffer* exceeds 65535 as well
        let mut hr = r.fork("bulk");
        for _ in 0..hr.range(1, 2) {
            let n = hr.range(66_000, 80_000) as usize;
            let bytes = match hr.below(5) {
                0 => vec![0u8; n],
                1 => hr.bytes(n),
                2 => {
                    // thousands of complete-but-dead candidates in one buffer
                    let mut v = hr.bytes(n);
                    for x in v.iter_mut() {
                        if hr.chance(0.25) {
                            *x = 0xD3;
                        }
                    }
                    v
                }
                3 => {
                    let mut v = Vec::with_capacity(n + 4);
                    while v.len() < n {
                        v.extend_from_slice(&[0xD3, 0x00, 0x00, 0x55]);
                    }
                    v
                }
                _ => {
                    let mut v = Vec::with_capacity(n + 100);
                    while v.len() < n {
                        v.extend_from_slice(&nmea(&mut hr));
                    }
                    v
                }
            };
            let mut it = Item::new("noise:bulk".to_string(), "noise", bytes, false);
            let pos = hr.usize_below(items.len() + 1);
            it.epoch = if pos < items.len() { items[pos].epoch } else { epoch };
            items.insert(pos, it);
        }
    }
    if cfg.tail_long_header {
        let mut it = Item::new("noise:long_header".into(), "noise", vec![0xD3, 0x03, 0xFF], false);
        it.epoch = epoch;
        items.push(it);
    }
    items
}

// ---------------------------------------------------------------------------
// channel faults
// ---------------------------------------------------------------------------

#[inline]
fn flip_bit(bytes: &mut [u8], bit: usize) {
    bytes[bit / 8] ^= 0x80 >> (bit % 8);
}

/// bit positions of a frame that C04's fault classes may hit: the six reserved
/// header bits (8..14) and everything from bit 24 on (payload + checksum)
pub fn c04_allowed_bits(frame_len: usize) -> (std::ops::Range<usize>, std::ops::Range<usize>) {
    (8..14, 24..frame_len * 8)
}

fn pick_allowed_bit(r: &mut Rng, frame_len: usize) -> usize {
    let n2 = frame_len * 8 - 24;
    let x = r.below((6 + n2) as u64) as usize;
    if x < 6 {
        8 + x
    } else {
        24 + (x - 6)
    }
}

/// biased choice: CRC bytes, first payload bytes, reserved bits, last bit, uniform
fn pick_allowed_bit_biased(r: &mut Rng, frame_len: usize) -> usize {
    let nbits = frame_len * 8;
    match r.below(8) {
        0 => nbits - 1 - r.below(24) as usize,
        1 => 8 + r.below(6) as usize,
        2 => 24 + r.below(((nbits - 24).min(16)) as u64) as usize,
        3 => nbits - 1,
        _ => pick_allowed_bit(r, frame_len),
    }
}

/// Draw one guaranteed-detectable error pattern for a frame of `frame_len`
/// bytes. Returns (class, sorted distinct bit positions).
pub fn draw_c04_fault(r: &mut Rng, frame_len: usize) -> (String, Vec<u32>) {
    let nbits = frame_len * 8;
    loop {
        match r.below(4) {
            0 => {
                return ("flip1".into(), vec![pick_allowed_bit_biased(r, frame_len) as u32]);
            }
            1 => {
                let a = pick_allowed_bit_biased(r, frame_len);
                let b = match r.below(6) {
                    0 => a + 1,
                    1 => a + 8,
                    2 => a + 23,
                    3 => a + 24,
                    4 => a + 25,
                    _ => pick_allowed_bit(r, frame_len),
                };
                if b == a || b >= nbits || !is_allowed(b, frame_len) {
                    continue;
                }
                let mut v = vec![a as u32, b as u32];
                v.sort_unstable();
                return ("flip2".into(), v);
            }
            2 => {
                let allowed = 6 + nbits - 24;
                let mut k = 3 + 2 * r.below(16) as usize; // 3..=33 odd
                if k > allowed {
                    k = if allowed % 2 == 1 { allowed } else { allowed - 1 };
                }
                if k < 3 {
                    continue;
                }
                let mut v: Vec<u32> = Vec::with_capacity(k);
                while v.len() < k {
                    let b = pick_allowed_bit(r, frame_len) as u32;
                    if !v.contains(&b) {
                        v.push(b);
                    }
                }
                v.sort_unstable();
                return ("flip_odd".into(), v);
            }
            _ => {
                // burst: span 2..=24, first and last bit flipped, interior random
                let in_reserved = r.chance(0.1);
                let (lo, hi) = if in_reserved { (8usize, 14usize) } else { (24usize, nbits) };
                let max_span = (hi - lo).min(24);
                if max_span < 2 {
                    continue;
                }
                let span = r.range(2, max_span as u64) as usize;
                let start = if !in_reserved && r.chance(0.3) {
                    // aimed at the checksum / frame end
                    let s_lo = hi.saturating_sub(24 + span).max(lo);
                    r.range(s_lo as u64, (hi - span) as u64) as usize
                } else {
                    r.range(lo as u64, (hi - span) as u64) as usize
                };
                let mut v = vec![start as u32];
                for i in 1..span - 1 {
                    if r.chance(0.5) {
                        v.push((start + i) as u32);
                    }
                }
                v.push((start + span - 1) as u32);
                return ("burst".into(), v);
            }
        }
    }
}

#[inline]
pub fn is_allowed(bit: usize, frame_len: usize) -> bool {
    (8..14).contains(&bit) || (bit >= 24 && bit < frame_len * 8)
}

/// the injector's own check that a pattern belongs to its declared class and
/// lies inside the region C04 talks about (harness assertion, not an oracle)
pub fn c04_pattern_ok(class: &str, bits: &[u32], frame_len: usize) -> bool {
    if bits.is_empty() {
        return false;
    }
    for w in bits.windows(2) {
        if w[0] >= w[1] {
            return false;
        }
    }
    if !bits.iter().all(|b| is_allowed(*b as usize, frame_len)) {
        return false;
    }
    match class {
        "flip1" => bits.len() == 1,
        "flip2" => bits.len() == 2,
        "flip_odd" => bits.len() % 2 == 1,
        "burst" => {
            let span = bits[bits.len() - 1] - bits[0] + 1;
            let same_region = (bits[0] < 14) == (bits[bits.len() - 1] < 14);
            bits.len() >= 2 && span <= 24 && same_region
        }
        _ => false,
    }
}

struct FaultCtx<'a> {
    recs: &'a mut Vec<FaultRec>,
}

impl<'a> FaultCtx<'a> {
    fn rec(&mut self, kind: &str, item: &str, detail: String) {
        self.recs.push(FaultRec { kind: kind.into(), item: item.into(), detail });
    }
}

pub fn apply_faults(cfg: &Cfg, items: &mut Vec<Item>, r: &mut Rng, recs: &mut Vec<FaultRec>) {
    if cfg.fault_free {
        return;
    }
    let mut cx = FaultCtx { recs };
    // --- structural faults ---------------------------------------------------
    // dup: item delivered twice (right after, or a few items later)
    if cfg.r_dup > 0.0 {
        let mut i = 0;
        while i < items.len() && items.len() < 400 {
            if r.chance(cfg.r_dup) {
                let mut c = items[i].clone();
                c.label = format!("{}+dup", c.label);
                let at = (i + 1 + r.below(3) as usize).min(items.len());
                cx.rec("dup", &items[i].label, format!("copy_at_item={}", at));
                items.insert(at, c);
                i += 1;
            }
            i += 1;
        }
    }
    // swap: two adjacent items reordered
    if cfg.r_swap > 0.0 {
        let mut i = 0;
        while i + 1 < items.len() {
            if r.chance(cfg.r_swap) {
                cx.rec("swap", &items[i].label, format!("with={}", items[i + 1].label));
                items.swap(i, i + 1);
                i += 1;
            }
            i += 1;
        }
    }
    // trunc_tail: sender cut mid-frame, stream continues with next item
    if cfg.r_trunc > 0.0 {
        for it in items.iter_mut() {
            if it.bytes.len() >= 2 && r.chance(cfg.r_trunc) {
                let n = it.bytes.len();
                let k = match r.below(3) {
                    0 => (r.range(1, 5) as usize).min(n - 1),
                    1 => n - (r.range(1, 4) as usize).min(n - 1),
                    _ => r.range(1, (n - 1) as u64) as usize,
                };
                it.bytes.truncate(k);
                it.touched = true;
                it.frame = false;
                cx.rec("trunc_tail", &it.label, format!("keep={}of{}", k, n));
                it.label = format!("{}+trunc", it.label);
            }
        }
    }
    // drop: byte range lost (inside an item, across an item boundary, or whole items)
    if cfg.r_drop > 0.0 {
        let mut i = 0;
        while i < items.len() {
            if r.chance(cfg.r_drop) {
                match r.below(3) {
                    0 if items[i].bytes.len() >= 2 => {
                        let n = items[i].bytes.len();
                        let a = r.below(n as u64) as usize;
                        let len = (r.geometric(4.0) as usize).min(n - a).min(n - 1).max(1);
                        items[i].bytes.drain(a..a + len);
                        items[i].touched = true;
                        items[i].frame = false;
                        cx.rec("drop", &items[i].label, format!("inside@{}+{}", a, len));
                        items[i].label = format!("{}+drop", items[i].label);
                    }
                    1 if i + 1 < items.len() && items[i].bytes.len() >= 2 && items[i + 1].bytes.len() >= 2 => {
                        let n = items[i].bytes.len();
                        let ta = r.range(1, (n - 1).min(8) as u64) as usize;
                        let m = items[i + 1].bytes.len();
                        let hb = r.range(1, (m - 1).min(8) as u64) as usize;
                        items[i].bytes.truncate(n - ta);
                        items[i + 1].bytes.drain(..hb);
                        for k in [i, i + 1] {
                            items[k].touched = true;
                            items[k].frame = false;
                        }
                        cx.rec("drop", &items[i].label, format!("boundary:tail{}+head{}", ta, hb));
                        items[i].label = format!("{}+drop", items[i].label);
                        items[i + 1].label = format!("{}+drop", items[i + 1].label);
                    }
                    _ => {
                        let k = (r.range(1, 3) as usize).min(items.len() - i);
                        if items.len() > k {
                            let lbl = items[i].label.clone();
                            let bytes: usize = items[i..i + k].iter().map(|x| x.bytes.len()).sum();
                            items.drain(i..i + k);
                            cx.rec("drop", &lbl, format!("whole_items={},bytes={}", k, bytes));
                            continue;
                        }
                    }
                }
            }
            i += 1;
        }
    }
    // insert: foreign bytes interleaved, also inside an item
    if cfg.r_insert > 0.0 {
        let mut i = 0;
        while i < items.len() && items.len() < 450 {
            if r.chance(cfg.r_insert) {
                let mut noise = gen_noise(r);
                noise.epoch = items[i].epoch;
                let n = items[i].bytes.len();
                if n >= 2 && r.chance(0.7) {
                    let k = match r.below(3) {
                        0 => (r.range(1, 4) as usize).min(n - 1),
                        1 => n - (r.range(1, 4) as usize).min(n - 1),
                        _ => r.range(1, (n - 1) as u64) as usize,
                    };
                    let tail_bytes = items[i].bytes.split_off(k);
                    items[i].touched = true;
                    items[i].frame = false;
                    let mut tail = items[i].clone();
                    tail.bytes = tail_bytes;
                    tail.label = format!("{}[{}..]", items[i].label, k);
                    cx.rec("insert", &items[i].label, format!("inside@{},{}B:{}", k, noise.bytes.len(), noise.label));
                    items[i].label = format!("{}[..{}]", items[i].label, k);
                    noise.label = format!("{}+ins", noise.label);
                    items.insert(i + 1, noise);
                    items.insert(i + 2, tail);
                    i += 3;
                    continue;
                } else {
                    cx.rec("insert", &items[i].label, format!("before,{}B:{}", noise.bytes.len(), noise.label));
                    noise.label = format!("{}+ins", noise.label);
                    items.insert(i, noise);
                    i += 2;
                    continue;
                }
            }
            i += 1;
        }
    }
    // --- C04 targets: exactly one detectable fault on an otherwise intact frame
    if cfg.r_c04 > 0.0 {
        for it in items.iter_mut() {
            if it.frame && !it.touched && it.bytes.len() >= 6 && r.chance(cfg.r_c04) {
                let (class, bits) = draw_c04_fault(r, it.bytes.len());
                assert!(c04_pattern_ok(&class, &bits, it.bytes.len()), "injector produced a pattern outside its class");
                for b in &bits {
                    flip_bit(&mut it.bytes, *b as usize);
                }
                it.touched = true;
                it.locked = true;
                it.frame = false;
                cx.rec(&class, &it.label, format!("bits={:?}", &bits[..bits.len().min(6)]));
                it.c04 = Some((class.clone(), bits));
                it.label = format!("{}+{}", it.label, class);
            }
        }
    }
    // --- further bit faults on frames that are not C04 targets -----------------
    for it in items.iter_mut() {
        if it.locked || it.bytes.len() < 4 || it.kind == "noise" {
            continue;
        }
        let n = it.bytes.len();
        if cfg.r_flip > 0.0 && r.chance(cfg.r_flip) {
            let k = 1 + r.below(4) as usize;
            for _ in 0..k {
                let b = r.below((n * 8) as u64) as usize;
                flip_bit(&mut it.bytes, b);
            }
            it.touched = true;
            it.frame = false;
            cx.rec("flip_any", &it.label, format!("k={}", k));
            it.label = format!("{}+flip", it.label);
        }
        if cfg.r_burst_long > 0.0 && r.chance(cfg.r_burst_long) {
            let span = r.range(25, 64).min((n * 8) as u64) as usize;
            let start = r.below((n * 8 - span + 1) as u64) as usize;
            flip_bit(&mut it.bytes, start);
            flip_bit(&mut it.bytes, start + span - 1);
            for i in 1..span - 1 {
                if r.chance(0.5) {
                    flip_bit(&mut it.bytes, start + i);
                }
            }
            it.touched = true;
            it.frame = false;
            cx.rec("burst_long", &it.label, format!("start={},span={}", start, span));
            it.label = format!("{}+burstlong", it.label);
        }
        if cfg.r_hdr_len > 0.0 && r.chance(cfg.r_hdr_len) {
            let bit = 14 + r.below(10) as usize;
            flip_bit(&mut it.bytes, bit);
            it.touched = true;
            it.frame = false;
            cx.rec("hdr_len", &it.label, format!("bit={}", bit));
            it.label = format!("{}+hdrlen", it.label);
        }
        if cfg.r_hdr_pre > 0.0 && r.chance(cfg.r_hdr_pre) {
            let mut v = r.below(255) as u8;
            if v >= 0xD3 {
                v += 1;
            }
            it.bytes[0] = v;
            it.touched = true;
            it.frame = false;
            cx.rec("hdr_pre", &it.label, format!("byte0={:02x}", v));
            it.label = format!("{}+hdrpre", it.label);
        }
    }
}

// ---------------------------------------------------------------------------
// schedule: how the rover's reads cut the stream
// ---------------------------------------------------------------------------

#[derive(Clone, Copy, Debug, PartialEq, Eq)]
enum EvKind {
    Emit,
    Poll,
    Restart,
    End,
}

#[derive(Clone, Copy, Debug, PartialEq, Eq)]
struct Ev {
    t: u64,
    seq: u64,
    kind: EvKind,
    arg: u64,
}

impl Ord for Ev {
    fn cmp(&self, o: &Self) -> std::cmp::Ordering {
        // BinaryHeap is a max-heap: reverse so the smallest (t, seq) pops first
        (o.t, o.seq).cmp(&(self.t, self.seq))
    }
}
impl PartialOrd for Ev {
    fn partial_cmp(&self, o: &Self) -> Option<std::cmp::Ordering> {
        Some(self.cmp(o))
    }
}

pub struct Sched {
    pub cuts: Vec<usize>,
    pub restarts: Vec<usize>,
    pub sim_ns: u64,
    pub events: u64,
    pub event_digest: u64,
    pub stalls: u64,
    pub short_reads: u64,
}

/// discrete-event simulation of line clock and rover polls (strategy `timing`)
fn schedule_timing(cfg: &Cfg, segs: &[Segment], seg_epoch: &[u32], n: usize, r: &mut Rng) -> Sched {
    let byte_ns = 10_000_000_000u64 / cfg.baud as u64;
    let epoch_ns = 1_000_000_000u64 / cfg.epoch_hz as u64;
    let mut heap: BinaryHeap<Ev> = BinaryHeap::new();
    let mut seq = 0u64;
    let mut push = |heap: &mut BinaryHeap<Ev>, t: u64, kind: EvKind, arg: u64| {
        seq += 1;
        heap.push(Ev { t, seq, kind, arg });
    };
    for (i, _s) in segs.iter().enumerate() {
        push(&mut heap, seg_epoch[i] as u64 * epoch_ns, EvKind::Emit, i as u64);
    }
    // restarts at simulated instants
    let horizon = segs.len().max(1) as u64 * epoch_ns + n as u64 * byte_ns;
    for _ in 0..cfg.n_restarts {
        let t = r.below(horizon.max(1));
        push(&mut heap, t, EvKind::Restart, 0);
    }
    push(&mut heap, r.below(cfg.poll_ns.max(1)), EvKind::Poll, 0);
    let mut arrival: Vec<u64> = vec![u64::MAX; n];
    let mut emitted = 0usize; // bytes with known arrival time
    let mut line_free = 0u64;
    let mut read = 0usize;
    let mut cuts = Vec::new();
    let mut restarts = Vec::new();
    let mut dig = Digest::new();
    let mut events = 0u64;
    let mut now = 0u64;
    let mut stalls = 0u64;
    let mut short_reads = 0u64;
    let mut emits_left = segs.len();
    while let Some(ev) = heap.pop() {
        now = ev.t;
        events += 1;
        dig.push(ev.t);
        dig.push(ev.seq);
        dig.push(ev.kind as u64);
        dig.push(ev.arg);
        if events > MAX_EVENTS {
            break;
        }
        match ev.kind {
            EvKind::Emit => {
                let s = &segs[ev.arg as usize];
                line_free = line_free.max(now);
                debug_assert_eq!(s.start, emitted);
                for i in s.start..s.start + s.len {
                    line_free += byte_ns;
                    arrival[i] = line_free;
                }
                emitted = s.start + s.len;
                emits_left -= 1;
            }
            EvKind::Poll => {
                let mut avail = 0usize;
                while read + avail < emitted && arrival[read + avail] <= now {
                    avail += 1;
                }
                let k = avail.min(cfg.read_limit);
                if k < avail {
                    short_reads += 1;
                }
                if k > 0 {
                    read += k;
                    if read < n {
                        cuts.push(read);
                    }
                }
                dig.push(k as u64);
                if read >= n && emits_left == 0 {
                    push(&mut heap, now, EvKind::End, 0);
                } else {
                    let jitter = 0.5 + r.unit();
                    let mut dt = ((cfg.poll_ns as f64) * jitter) as u64;
                    if cfg.p_stall > 0.0 && r.chance(cfg.p_stall) {
                        // Pareto-ish stall, up to a few seconds
                        let u = r.unit().max(1e-6);
                        let stall = (20_000_000.0 / u.powf(0.7)).min(5_000_000_000.0) as u64;
                        dt += stall;
                        stalls += 1;
                    }
                    push(&mut heap, now + dt.max(1), EvKind::Poll, 0);
                }
            }
            EvKind::Restart => {
                if read > 0 && read < n {
                    restarts.push(read);
                }
            }
            EvKind::End => break,
        }
    }
    // anything unread (event cap) arrives as one final chunk
    Sched { cuts, restarts, sim_ns: now.max(line_free), events, event_digest: dig.finish(), stalls, short_reads }
}

/// positions worth cutting at, relative to frame-like segments
fn anchors(segs: &[Segment], n: usize) -> Vec<usize> {
    let mut v = Vec::new();
    for s in segs {
        if s.kind == "noise" {
            v.push(s.start);
            continue;
        }
        let e = s.start + s.len;
        for d in [0usize, 1, 2, 3, 4, 5] {
            v.push(s.start + d);
        }
        for d in [0usize, 1, 2, 3, 4] {
            if e >= d {
                v.push(e - d);
            }
        }
        v.push(e + 1);
    }
    v.retain(|&p| p > 0 && p < n);
    v.sort_unstable();
    v.dedup();
    v
}

pub fn schedule(cfg: &Cfg, segs: &[Segment], seg_epoch: &[u32], n: usize, r: &mut Rng) -> Sched {
    let byte_ns = 10_000_000_000u64 / cfg.baud as u64;
    let line_ns = n as u64 * byte_ns;
    let mut s = Sched { cuts: vec![], restarts: vec![], sim_ns: line_ns, events: 0, event_digest: 0, stalls: 0, short_reads: 0 };
    if n == 0 {
        return s;
    }
    match cfg.strategy {
        "timing" => return schedule_timing(cfg, segs, seg_epoch, n, r),
        "one_shot" => {}
        "every_byte" => {
            let lim = n.min(8192);
            s.cuts.extend(1..lim);
            let mut p = lim;
            while p < n {
                s.cuts.push(p);
                p += r.geometric(cfg.chunk_mean) as usize;
            }
        }
        "aimed" => {
            let a = anchors(segs, n);
            for p in a {
                if r.chance(0.5) {
                    s.cuts.push(p);
                }
            }
            let extra = r.geometric(3.0) as usize - 1;
            for _ in 0..extra {
                s.cuts.push(r.range(1, (n - 1).max(1) as u64) as usize);
            }
        }
        _ => {
            // random_sizes
            let mut p = r.geometric(cfg.chunk_mean) as usize;
            while p < n {
                s.cuts.push(p);
                p += r.geometric(cfg.chunk_mean) as usize;
            }
        }
    }
    // restarts for the non-timing strategies: aimed (inside frames) or uniform
    if cfg.n_restarts > 0 && n > 1 {
        let a = anchors(segs, n);
        for _ in 0..cfg.n_restarts {
            let p = if !a.is_empty() && r.chance(0.5) { *r.pick(&a) } else { r.range(1, (n - 1) as u64) as usize };
            s.restarts.push(p);
        }
    }
    s.events = s.cuts.len() as u64 + segs.len() as u64;
    s
}

// ---------------------------------------------------------------------------
// whole run
// ---------------------------------------------------------------------------

pub struct GenOut {
    pub trace: StreamTrace,
    pub cfg: Cfg,
    pub gen_failures: u64,
    pub stalls: u64,
    pub short_reads: u64,
}

pub fn concat_items(items: &[Item]) -> (Vec<u8>, Vec<Segment>, Vec<u32>, Vec<C04Target>) {
    let mut stream = Vec::new();
    let mut segs = Vec::new();
    let mut epochs = Vec::new();
    let mut c04 = Vec::new();
    for it in items {
        if it.bytes.is_empty() {
            continue;
        }
        let start = stream.len();
        stream.extend_from_slice(&it.bytes);
        segs.push(Segment {
            label: it.label.clone(),
            kind: it.kind.to_string(),
            start,
            len: it.bytes.len(),
            intact: it.frame && !it.touched,
        });
        epochs.push(it.epoch);
        if let Some((class, bits)) = &it.c04 {
            c04.push(C04Target { off: start, frame_len: it.bytes.len(), class: class.clone(), bits: bits.clone() });
        }
    }
    (stream, segs, epochs, c04)
}

pub fn gen_stream(master: u64, run: u64, prop: Prop) -> GenOut {
    let seed = crate::rng::run_seed(master, run);
    let root = Rng::from_seed(seed);
    let mut cfg_rng = root.fork("cfg");
    let mut wl = root.fork("workload");
    let mut fr = root.fork("faults");
    let mut sr = root.fork("schedule");
    let cfg = draw_cfg(prop, &mut cfg_rng);
    let mut st = Station::new();
    let mut items = gen_items(&cfg, &mut st, &mut wl);
    for it in items.iter_mut() {
        if it.frame && !matches!(ref_accept(&it.bytes), Accept::Accept(l) if l + 6 == it.bytes.len()) {
            it.frame = false; // never a C04 target, never "intact"
        }
    }
    let mut faults = Vec::new();
    apply_faults(&cfg, &mut items, &mut fr, &mut faults);
    // epochs must be non-decreasing along the stream for the line model
    let mut e = 0u32;
    for it in items.iter_mut() {
        if it.epoch < e {
            it.epoch = e;
        }
        e = it.epoch;
    }
    let (stream, segs, epochs, c04) = concat_items(&items);
    // ground truth must not depend on the encoder being right: a segment counts as an intact
    // frame only if the REFERENCE accepts exactly its bytes (an encoder that emits something else
    // is a matter for the encoder properties; here its output is then just bytes on the line)
    let mut segs = segs;
    for s in segs.iter_mut() {
        if s.intact && !matches!(ref_accept(&stream[s.start..s.start + s.len]), Accept::Accept(l) if l + 6 == s.len) {
            s.intact = false;
            s.label = format!("{}+not_a_valid_frame", s.label);
        }
    }
    let _ = crc24q;
    let sch = schedule(&cfg, &segs, &epochs, stream.len(), &mut sr);
    let mut trace = StreamTrace {
        property: prop.id().to_string(),
        seed: master,
        run,
        origin: "random".into(),
        strategy: cfg.strategy.to_string(),
        rx_variant: cfg.rx_variant,
        baud: cfg.baud,
        sim_ns: sch.sim_ns,
        events: sch.events,
        event_digest: sch.event_digest,
        segments: segs,
        faults,
        stream,
        cuts: sch.cuts,
        restarts: sch.restarts,
        c04,
    };
    trace.normalise();
    GenOut { trace, cfg, gen_failures: st.gen_failures, stalls: sch.stalls, short_reads: sch.short_reads }
}
