//! The only source of choices inside a simulated run: splitmix64 for seeding,
//! xoshiro256** for the stream. Sub-streams are forked by hashing a label into
//! the seed so that a draw added to one stream never perturbs another.

#[inline]
pub fn splitmix64_step(state: &mut u64) -> u64 {
    *state = state.wrapping_add(0x9E37_79B9_7F4A_7C15);
    let mut z = *state;
    z = (z ^ (z >> 30)).wrapping_mul(0xBF58_476D_1CE4_E5B9);
    z = (z ^ (z >> 27)).wrapping_mul(0x94D0_49BB_1331_11EB);
    z ^ (z >> 31)
}

#[inline]
pub fn mix64(x: u64) -> u64 {
    let mut s = x;
    splitmix64_step(&mut s)
}

/// seed of run `i` under master seed `master`
pub fn run_seed(master: u64, run: u64) -> u64 {
    mix64(master ^ run.wrapping_mul(0x9E37_79B9_7F4A_7C15))
}

pub fn hash_label(label: &str) -> u64 {
    // FNV-1a, 64 bit
    let mut h: u64 = 0xcbf2_9ce4_8422_2325;
    for b in label.as_bytes() {
        h ^= *b as u64;
        h = h.wrapping_mul(0x0000_0100_0000_01B3);
    }
    h
}

#[derive(Clone, Debug)]
pub struct Rng {
    s: [u64; 4],
    seed: u64,
}

impl Rng {
    pub fn from_seed(seed: u64) -> Self {
        let mut sm = seed;
        let s = [
            splitmix64_step(&mut sm),
            splitmix64_step(&mut sm),
            splitmix64_step(&mut sm),
            splitmix64_step(&mut sm),
        ];
        Rng { s, seed }
    }
    /// independent sub-stream named by `label` (depends only on the seed this
    /// generator was created from, not on how many draws were made)
    pub fn fork(&self, label: &str) -> Rng {
        Rng::from_seed(mix64(self.seed ^ hash_label(label)))
    }
    pub fn fork_n(&self, label: &str, n: u64) -> Rng {
        Rng::from_seed(mix64(
            mix64(self.seed ^ hash_label(label)) ^ n.wrapping_mul(0xD6E8_FEB8_6659_FD93),
        ))
    }
    #[inline]
    pub fn next(&mut self) -> u64 {
        let result = self.s[1].wrapping_mul(5).rotate_left(7).wrapping_mul(9);
        let t = self.s[1] << 17;
        self.s[2] ^= self.s[0];
        self.s[3] ^= self.s[1];
        self.s[1] ^= self.s[2];
        self.s[0] ^= self.s[3];
        self.s[2] ^= t;
        self.s[3] = self.s[3].rotate_left(45);
        result
    }
    /// uniform in 0..n (n > 0)
    #[inline]
    pub fn below(&mut self, n: u64) -> u64 {
        debug_assert!(n > 0);
        // multiply-shift; bias is negligible for our n (< 2^32)
        ((self.next() as u128 * n as u128) >> 64) as u64
    }
    #[inline]
    pub fn usize_below(&mut self, n: usize) -> usize {
        self.below(n as u64) as usize
    }
    /// uniform in lo..=hi
    #[inline]
    pub fn range(&mut self, lo: u64, hi: u64) -> u64 {
        lo + self.below(hi - lo + 1)
    }
    #[inline]
    pub fn chance(&mut self, p: f64) -> bool {
        if p <= 0.0 {
            return false;
        }
        if p >= 1.0 {
            return true;
        }
        ((self.next() >> 11) as f64) * (1.0 / ((1u64 << 53) as f64)) < p
    }
    #[inline]
    pub fn unit(&mut self) -> f64 {
        ((self.next() >> 11) as f64) * (1.0 / ((1u64 << 53) as f64))
    }
    pub fn pick<'a, T>(&mut self, xs: &'a [T]) -> &'a T {
        &xs[self.usize_below(xs.len())]
    }
    /// geometric-ish positive integer with the given mean (>= 1)
    pub fn geometric(&mut self, mean: f64) -> u64 {
        if mean <= 1.0 {
            return 1;
        }
        let p = 1.0 / mean;
        let u = self.unit().max(1e-12);
        let k = (u.ln() / (1.0 - p).ln()).floor();
        1 + if k.is_finite() && k >= 0.0 { k.min(1e9) as u64 } else { 0 }
    }
    pub fn fill(&mut self, buf: &mut [u8]) {
        for ch in buf.chunks_mut(8) {
            let v = self.next().to_le_bytes();
            ch.copy_from_slice(&v[..ch.len()]);
        }
    }
    pub fn bytes(&mut self, n: usize) -> Vec<u8> {
        let mut v = vec![0u8; n];
        self.fill(&mut v);
        v
    }
}

/// Adapter handing one of our sub-streams to rtcm-rs' `ValGen` (which wants
/// `rand::Rng`). With probability `p_max` a 64-bit draw returns `u64::MAX`,
/// which is the generator's own trigger for "absent value" / "list at
/// capacity"; that is a swarm knob of the workload.
pub struct GenRng {
    pub rng: Rng,
    pub p_max: f64,
    /// forced draws (draw index counted over next_u32 and next_u64 calls, value)
    pub force: Vec<(u32, u64)>,
    pub draws: u32,
}

impl GenRng {
    #[inline]
    fn forced(&mut self) -> Option<u64> {
        let i = self.draws;
        self.draws = self.draws.wrapping_add(1);
        if self.force.is_empty() {
            return None;
        }
        self.force.iter().find(|(k, _)| *k == i).map(|(_, v)| *v)
    }
}

impl rand::RngCore for GenRng {
    fn next_u32(&mut self) -> u32 {
        let v = (self.rng.next() >> 32) as u32;
        match self.forced() {
            Some(f) => f as u32,
            None => v,
        }
    }
    fn next_u64(&mut self) -> u64 {
        let v = if self.p_max > 0.0 && self.rng.chance(self.p_max) { u64::MAX } else { self.rng.next() };
        match self.forced() {
            Some(f) => f,
            None => v,
        }
    }
    fn fill_bytes(&mut self, dest: &mut [u8]) {
        self.rng.fill(dest)
    }
    fn try_fill_bytes(&mut self, dest: &mut [u8]) -> Result<(), rand::Error> {
        self.rng.fill(dest);
        Ok(())
    }
}

/// order-sensitive 64-bit digest (event log / trace digests)
#[derive(Clone, Copy, Debug, PartialEq, Eq)]
pub struct Digest(pub u64);

impl Digest {
    pub fn new() -> Self {
        Digest(0x243F_6A88_85A3_08D3)
    }
    #[inline]
    pub fn push(&mut self, v: u64) {
        self.0 = (self.0.rotate_left(5) ^ v).wrapping_mul(0x517C_C1B7_2722_0A95);
    }
    pub fn push_bytes(&mut self, b: &[u8]) {
        self.push(b.len() as u64);
        for ch in b.chunks(8) {
            let mut w = [0u8; 8];
            w[..ch.len()].copy_from_slice(ch);
            self.push(u64::from_le_bytes(w));
        }
    }
    pub fn push_str(&mut self, s: &str) {
        self.push_bytes(s.as_bytes())
    }
    pub fn finish(&self) -> u64 {
        mix64(self.0)
    }
}
