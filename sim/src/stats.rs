//! Coverage accounting. Everything here is a sum or a set, so merging worker
//! results is order-independent and evidence is identical across worker counts.

use std::collections::{BTreeMap, HashSet};

#[derive(Default, Clone)]
pub struct Stats {
    pub runs: u64,
    pub nontrivial_runs: u64,
    pub oracle_evals: u64,
    pub scanner_calls: u64,
    pub stream_bytes: u64,
    pub sim_ns: u128,
    pub events: u64,
    pub faults: BTreeMap<String, u64>,
    pub probes: BTreeMap<String, u64>,
    pub strategies: BTreeMap<String, u64>,
    pub out_of_scope: BTreeMap<String, u64>,
    /// distinct signatures of non-trivial runs (iteration order never observed)
    pub signatures: HashSet<u64>,
    pub abs_states: HashSet<u64>,
    pub abs_transitions: HashSet<u64>,
    pub samples: Vec<(u64, serde_json::Value)>,
    /// xor/sum of per-run digests: the determinism witness of a batch
    pub digest_xor: u64,
    pub digest_sum: u64,
}

impl Stats {
    pub fn probe(&mut self, name: &str) {
        *self.probes.entry(name.to_string()).or_insert(0) += 1;
    }
    pub fn probe_n(&mut self, name: &str, n: u64) {
        *self.probes.entry(name.to_string()).or_insert(0) += n;
    }
    pub fn fault(&mut self, name: &str) {
        *self.faults.entry(name.to_string()).or_insert(0) += 1;
    }
    pub fn fault_n(&mut self, name: &str, n: u64) {
        if n > 0 {
            *self.faults.entry(name.to_string()).or_insert(0) += n;
        }
    }
    pub fn oos(&mut self, name: &str) {
        *self.out_of_scope.entry(name.to_string()).or_insert(0) += 1;
    }
    pub fn push_digest(&mut self, d: u64) {
        self.digest_xor ^= d;
        self.digest_sum = self.digest_sum.wrapping_add(d);
    }
    pub fn merge(&mut self, o: Stats) {
        self.runs += o.runs;
        self.nontrivial_runs += o.nontrivial_runs;
        self.oracle_evals += o.oracle_evals;
        self.scanner_calls += o.scanner_calls;
        self.stream_bytes += o.stream_bytes;
        self.sim_ns += o.sim_ns;
        self.events += o.events;
        for (k, v) in o.faults {
            *self.faults.entry(k).or_insert(0) += v;
        }
        for (k, v) in o.probes {
            *self.probes.entry(k).or_insert(0) += v;
        }
        for (k, v) in o.strategies {
            *self.strategies.entry(k).or_insert(0) += v;
        }
        for (k, v) in o.out_of_scope {
            *self.out_of_scope.entry(k).or_insert(0) += v;
        }
        self.signatures.extend(o.signatures);
        self.abs_states.extend(o.abs_states);
        self.abs_transitions.extend(o.abs_transitions);
        self.samples.extend(o.samples);
        self.digest_xor ^= o.digest_xor;
        self.digest_sum = self.digest_sum.wrapping_add(o.digest_sum);
    }
}
