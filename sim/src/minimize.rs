//! Delta debugging on recorded traces (PRNG-free). A step is kept iff the same
//! property *and clause* still fails.

use crate::builder::{judge_builder, BuilderTrace, Op};
use crate::judge::judge_stream;
use crate::stream::Prop;
use crate::trace::StreamTrace;
use std::time::{Duration, Instant};

pub struct Budget {
    pub calls: usize,
    pub max_calls: usize,
    pub start: Instant,
    pub max_time: Duration,
}

impl Budget {
    pub fn new(max_calls: usize, secs: u64) -> Self {
        Budget { calls: 0, max_calls, start: Instant::now(), max_time: Duration::from_secs(secs) }
    }
    fn ok(&self) -> bool {
        self.calls < self.max_calls && self.start.elapsed() < self.max_time
    }
}

fn fails_stream(t: &StreamTrace, prop: Prop, clause: &str, b: &mut Budget) -> bool {
    b.calls += 1;
    match judge_stream(t, prop, None) {
        Some(v) => v.property == prop.id() && v.clause == clause,
        None => false,
    }
}

pub fn minimise_stream(orig: &StreamTrace, prop: Prop, clause: &str, b: &mut Budget) -> StreamTrace {
    let mut cur = orig.clone();
    if !fails_stream(&cur, prop, clause, b) {
        return cur; // not reproducible by the judge alone: keep as is
    }
    // 1. drop whole segments, last to first, repeat until no progress
    loop {
        let mut progress = false;
        let mut i = cur.segments.len();
        while i > 0 && b.ok() {
            i -= 1;
            if i >= cur.segments.len() {
                continue;
            }
            let s = cur.segments[i].clone();
            let mut cand = cur.clone();
            cand.remove_range(s.start, s.start + s.len);
            if cand.stream.len() < cur.stream.len() && fails_stream(&cand, prop, clause, b) {
                cur = cand;
                progress = true;
            }
        }
        if !progress || !b.ok() {
            break;
        }
    }
    // 2. restarts away
    if !cur.restarts.is_empty() && b.ok() {
        let mut cand = cur.clone();
        cand.restarts.clear();
        if fails_stream(&cand, prop, clause, b) {
            cur = cand;
        } else {
            let mut i = 0;
            while i < cur.restarts.len() && b.ok() {
                let mut cand = cur.clone();
                cand.restarts.remove(i);
                if fails_stream(&cand, prop, clause, b) {
                    cur = cand;
                } else {
                    i += 1;
                }
            }
        }
    }
    // 3. fewer cuts: all away, then ddmin
    if !cur.cuts.is_empty() && b.ok() {
        let mut cand = cur.clone();
        cand.cuts = cand.restarts.clone();
        if fails_stream(&cand, prop, clause, b) {
            cur = cand;
        } else {
            let mut gran = 2usize;
            while cur.cuts.len() >= 1 && b.ok() {
                let n = cur.cuts.len();
                let chunk = (n + gran - 1) / gran;
                let mut reduced = false;
                let mut start = 0;
                while start < n && b.ok() {
                    let end = (start + chunk).min(n);
                    let mut cand = cur.clone();
                    let removed: Vec<usize> = cand.cuts.drain(start..end).collect();
                    // restarts must stay cuts
                    for r in &cand.restarts {
                        if removed.contains(r) {
                            cand.cuts.push(*r);
                        }
                    }
                    cand.normalise();
                    if cand.cuts.len() < cur.cuts.len() && fails_stream(&cand, prop, clause, b) {
                        cur = cand;
                        reduced = true;
                        break;
                    }
                    start = end;
                }
                if reduced {
                    gran = gran.saturating_sub(1).max(2);
                } else {
                    if chunk <= 1 {
                        break;
                    }
                    gran = (gran * 2).min(n.max(2));
                }
            }
        }
    }
    // 4. ddmin over byte ranges
    {
        let mut size = (cur.stream.len() / 2).max(1);
        loop {
            if !b.ok() || cur.stream.is_empty() {
                break;
            }
            if size == 1 && cur.stream.len() > 4096 {
                break; // too long for byte-wise removal within budget
            }
            let mut pos = 0usize;
            let mut any = false;
            while pos < cur.stream.len() && b.ok() {
                let mut cand = cur.clone();
                cand.remove_range(pos, pos + size);
                if cand.stream.len() < cur.stream.len() && fails_stream(&cand, prop, clause, b) {
                    cur = cand;
                    any = true;
                } else {
                    pos += size;
                }
            }
            if size == 1 {
                if !any {
                    break;
                }
            } else {
                size /= 2;
            }
        }
    }
    // 4b. shrink valid frames: cut the tail of a frame's payload and re-frame it (length field and
    //     checksum recomputed by the reference), so that a frame needed only as "some valid frame"
    //     ends up as small as the violation allows
    {
        let mut i = 0;
        while i < cur.segments.len() && b.ok() {
            let seg = cur.segments[i].clone();
            let (a, n) = (seg.start, seg.len);
            let is_frame = n >= 7 && a + n <= cur.stream.len() && matches!(crate::refmodel::ref_accept(&cur.stream[a..a + n]), crate::refmodel::Accept::Accept(l) if l + 6 == n);
            if is_frame {
                let l = n - 6;
                for keep in [0usize, 2, l / 2, l - 1] {
                    if keep >= l || !b.ok() {
                        continue;
                    }
                    let mut cand = cur.clone();
                    let reserved = cand.stream[a + 1] >> 2;
                    let payload: Vec<u8> = cand.stream[a + 3..a + 3 + keep].to_vec();
                    let nf = crate::refmodel::make_frame(reserved, &payload);
                    // drop the payload tail, then overwrite the (now shorter) frame in place
                    cand.remove_range(a + 3 + keep, a + 3 + l);
                    if a + nf.len() <= cand.stream.len() {
                        cand.stream[a..a + nf.len()].copy_from_slice(&nf);
                        if let Some(sg) = cand.segments.iter_mut().find(|s| s.start == a) {
                            sg.intact = seg.intact;
                        }
                        if fails_stream(&cand, prop, clause, b) {
                            cur = cand;
                            break;
                        }
                    }
                }
            }
            i += 1;
        }
    }
    // 5. simplest rover variant
    if cur.rx_variant != 1 && b.ok() {
        let mut cand = cur.clone();
        cand.rx_variant = 1;
        if fails_stream(&cand, prop, clause, b) {
            cur = cand;
        }
    }
    // 6. zero bytes of short streams
    if cur.stream.len() <= 256 {
        for i in 0..cur.stream.len() {
            if !b.ok() {
                break;
            }
            if cur.stream[i] != 0 {
                let mut cand = cur.clone();
                cand.stream[i] = 0;
                if fails_stream(&cand, prop, clause, b) {
                    cur = cand;
                }
            }
        }
    }
    cur.faults.retain(|_| true);
    cur.origin = format!("minimised({})", orig.origin);
    cur
}

fn fails_builder(t: &BuilderTrace, clause: &str, b: &mut Budget) -> bool {
    b.calls += 1;
    match judge_builder(t, None) {
        Some(v) => v.clause == clause,
        None => false,
    }
}

pub fn minimise_builder(orig: &BuilderTrace, clause: &str, b: &mut Budget) -> BuilderTrace {
    let mut cur = orig.clone();
    if !fails_builder(&cur, clause, b) {
        return cur;
    }
    // drop ops (ddmin by single removal, last to first, repeated)
    loop {
        let mut progress = false;
        let mut i = cur.ops.len();
        while i > 0 && b.ok() {
            i -= 1;
            if cur.ops.len() <= 1 {
                break;
            }
            let mut cand = cur.clone();
            cand.ops.remove(i);
            if fails_builder(&cand, clause, b) {
                cur = cand;
                progress = true;
            }
        }
        if !progress || !b.ok() {
            break;
        }
    }
    // replace injected failures by plain builds; lower k
    for i in 0..cur.ops.len() {
        if !b.ok() {
            break;
        }
        if let Op::Injected { spec, k } = cur.ops[i].clone() {
            let mut cand = cur.clone();
            cand.ops[i] = Op::Build { spec: spec.clone() };
            if fails_builder(&cand, clause, b) {
                cur = cand;
                continue;
            }
            for k2 in [1u64, 2, k / 2] {
                if k2 >= 1 && k2 < k && b.ok() {
                    let mut cand = cur.clone();
                    cand.ops[i] = Op::Injected { spec: spec.clone(), k: k2 };
                    if fails_builder(&cand, clause, b) {
                        cur = cand;
                        break;
                    }
                }
            }
        }
    }
    // simpler generator settings
    for i in 0..cur.ops.len() {
        if !b.ok() {
            break;
        }
        let mut cand = cur.clone();
        let changed = match &mut cand.ops[i] {
            Op::Build { spec } | Op::Injected { spec, .. } | Op::Generated { spec } | Op::GeneratedInjected { spec, .. } | Op::Refused { spec, .. } => {
                if spec.p_len_max != 0.0 || spec.p_field_max != 0.0 {
                    spec.p_len_max = 0.0;
                    spec.p_field_max = 0.0;
                    true
                } else {
                    false
                }
            }
            _ => false,
        };
        if changed && fails_builder(&cand, clause, b) {
            cur = cand;
        }
    }
    cur.origin = format!("minimised({})", orig.origin);
    cur
}
