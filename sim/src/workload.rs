//! Station side: thin wrappers around the REAL encoder / generator / decoder
//! of rtcm-rs. Nothing here re-implements library behaviour.

use crate::rng::{GenRng, Rng};
use rtcm_rs::prelude::*;
use rtcm_rs::val_gen::ValGen;
use serde::{Deserialize, Serialize};
use std::panic::{catch_unwind, AssertUnwindSafe};

include!(concat!(env!("OUT_DIR"), "/msg_table.rs"));

pub fn msg_numbers() -> &'static [u16] {
    &MSG_NUMBERS
}

/// symbolic description of a generated frame: "the frame
/// `build_generated_message` produces for `msg` from these PRNG sub-streams"
#[derive(Clone, Debug, Serialize, Deserialize, PartialEq)]
pub struct GenSpec {
    pub msg: u16,
    pub gen_seed: u64,
    /// probability that a 64-bit draw of the length stream is u64::MAX
    /// (= "list at capacity" in the library's generator)
    pub p_len_max: f64,
    /// same for the field stream (= "absent value" pattern)
    pub p_field_max: f64,
    /// forced draws on the field stream: (draw index, value). Lets a history contain two
    /// messages of one type that differ in exactly one field (all-zero vs all-one pattern)
    #[serde(default, skip_serializing_if = "Vec::is_empty")]
    pub force: Vec<(u32, u64)>,
}

pub fn val_gen_for(spec: &GenSpec) -> ValGen<GenRng, GenRng, GenRng> {
    let base = Rng::from_seed(spec.gen_seed);
    ValGen::new(
        GenRng { rng: base.fork("field"), p_max: spec.p_field_max, force: spec.force.clone(), draws: 0 },
        GenRng { rng: base.fork("len"), p_max: spec.p_len_max, force: Vec::new(), draws: 0 },
        GenRng { rng: base.fork("rng"), p_max: 0.0, force: Vec::new(), draws: 0 },
    )
}

/// Real generator on the given (long-lived) builder. `None` if the generator
/// refuses (e.g. body would overflow 1023 bytes) or panics (the generator is
/// test support code; its panics are workload failures, not findings).
pub fn gen_frame(builder: &mut MessageBuilder, spec: &GenSpec) -> Option<Vec<u8>> {
    let mut vg = val_gen_for(spec);
    let r = catch_unwind(AssertUnwindSafe(|| {
        builder
            .build_generated_message(&mut vg, spec.msg)
            .ok()
            .map(|b| b.to_vec())
    }));
    match r {
        Ok(v) => v,
        Err(_) => {
            // a panic may have left the builder half-written: replace it
            *builder = MessageBuilder::new();
            None
        }
    }
}

/// Real decoder on an exact frame. `None` when the framer rejects the bytes or
/// the decoder panics.
pub fn decode_exact(frame: &[u8]) -> Option<Message> {
    catch_unwind(AssertUnwindSafe(|| {
        MessageFrame::new(frame).ok().map(|f| f.get_message())
    }))
    .ok()
    .flatten()
}

/// Typed path: decode the generated frame and build it again with
/// `build_message` on the same long-lived builder.
pub fn built_frame(builder: &mut MessageBuilder, spec: &GenSpec) -> Option<Vec<u8>> {
    let a = gen_frame(builder, spec)?;
    let m = decode_exact(&a)?;
    let r = catch_unwind(AssertUnwindSafe(|| {
        builder.build_message(&m).ok().map(|b| b.to_vec())
    }));
    match r {
        Ok(Some(v)) => Some(v),
        Ok(None) => Some(a),
        Err(_) => {
            *builder = MessageBuilder::new();
            Some(a)
        }
    }
}

pub fn install_quiet_panic_hook() {
    if std::env::var_os("RTCM_SIM_PANIC_VERBOSE").is_none() {
        std::panic::set_hook(Box::new(|_| {}));
    }
}

pub fn panic_text(e: &Box<dyn std::any::Any + Send>) -> String {
    if let Some(s) = e.downcast_ref::<&str>() {
        s.to_string()
    } else if let Some(s) = e.downcast_ref::<String>() {
        s.clone()
    } else {
        "<non-string panic payload>".to_string()
    }
}
