//! Rover (receiver) variants: caller-side buffer management following the
//! documented contract of `next_msg_frame` / `MsgFrameIter`, driving the REAL
//! scanner over the recorded chunks. Every scanner call is shown to an
//! `Observer`, which is where the per-step oracles live.

use crate::trace::{StreamTrace, Violation};
use rtcm_rs::prelude::*;

#[derive(Clone, Debug, PartialEq, Eq)]
pub struct Delivery {
    /// absolute offset of the frame in the stream
    pub off: usize,
    pub len: usize,
    /// absolute stream offset up to which data had arrived when it was delivered
    pub have: usize,
    /// digest of everything the delivered object reports about itself (frame_data, data, lengths,
    /// checksum, message number)
    pub attrs: u64,
}

pub fn frame_attrs(f: &MessageFrame) -> u64 {
    let mut d = crate::rng::Digest::new();
    d.push_bytes(f.frame_data());
    d.push_bytes(f.data());
    d.push(f.frame_len() as u64);
    d.push(f.data_len() as u64);
    d.push(f.crc() as u64);
    d.push(match f.message_number() {
        Some(n) => 0x1_0000 | n as u64,
        None => 0,
    });
    d.finish()
}

#[derive(Clone, Debug, Default, PartialEq, Eq)]
pub struct RoverOut {
    pub deliveries: Vec<Delivery>,
    /// per incarnation: (segment start, segment end, consumed total)
    pub incarnations: Vec<(usize, usize, usize)>,
    pub scans: u64,
}

pub trait Observer {
    /// one call of `next_msg_frame(buf)`; `base` is the absolute offset of buf[0]
    fn on_scan(&mut self, _buf: &[u8], _base: usize, _consumed: usize, _frame: Option<&MessageFrame>) -> Result<(), Violation> {
        Ok(())
    }
    /// one complete pass of `MsgFrameIter` over `buf`: frames as (rel start, len)
    fn on_iter(&mut self, _buf: &[u8], _base: usize, _frames: &[(usize, usize)], _consumed: usize, _nexts: usize) -> Result<(), Violation> {
        Ok(())
    }
    /// `consumed()` as read after EVERY `next()` call of one iterator pass (the last entry belongs
    /// to the call that returned None)
    fn on_iter_marks(&mut self, _buf: &[u8], _base: usize, _marks: &[usize]) -> Result<(), Violation> {
        Ok(())
    }
    /// a chunk was appended (before scanning)
    fn on_chunk(&mut self, _have: usize, _size: usize) {}
}

pub struct NoObserver;
impl Observer for NoObserver {}

fn rel_start(buf: &[u8], f: &MessageFrame) -> usize {
    (f.frame_data().as_ptr() as usize).wrapping_sub(buf.as_ptr() as usize)
}

/// chunk boundaries of one incarnation [a, b)
fn bounds(trace: &StreamTrace, a: usize, b: usize) -> Vec<usize> {
    let mut v: Vec<usize> = trace.cuts.iter().copied().filter(|&c| c > a && c < b).collect();
    v.push(b);
    v
}

pub fn incarnation_ranges(trace: &StreamTrace) -> Vec<(usize, usize)> {
    let n = trace.stream.len();
    let mut v = Vec::new();
    let mut a = 0usize;
    for &r in &trace.restarts {
        if r > a && r < n {
            v.push((a, r));
            a = r;
        }
    }
    v.push((a, n));
    v
}

/// Drive rover `variant` (1..=4) over the trace. `prop` is only used to label
/// contract breaches by the scanner that make it impossible to continue
/// (consumed > len, runaway iterator).
pub fn drive(trace: &StreamTrace, variant: u8, prop: &str, obs: &mut dyn Observer) -> Result<RoverOut, Violation> {
    let mut out = RoverOut::default();
    let stream = &trace.stream;
    for (a, b) in incarnation_ranges(trace) {
        let consumed = match variant {
            1 => drive_v1(stream, a, &bounds(trace, a, b), prop, obs, &mut out)?,
            2 => drive_v2(stream, a, &bounds(trace, a, b), prop, obs, &mut out)?,
            3 => drive_v3(stream, a, &bounds(trace, a, b), prop, obs, &mut out)?,
            4 => drive_v4(stream, a, &bounds(trace, a, b), prop, obs, &mut out)?,
            _ => drive_v5(stream, a, &bounds(trace, a, b), prop, obs, &mut out)?,
        };
        out.incarnations.push((a, b, consumed));
    }
    Ok(out)
}

/// "Another connection served by the same thread": an unrelated scanner call
/// between two calls of ours (rover variants V2 and V4). The library keeps no
/// state between calls; if a change ever introduces some (a cache in a static
/// or thread-local), these decoy calls make it visible to the per-step oracles.
fn decoy(step: usize) {
    const INCOMPLETE: [u8; 5] = [0xD3, 0x00, 0x10, 0x55, 0xD3];
    const FRAME_THEN_D3: [u8; 10] = [0xD3, 0x00, 0x03, 0x3E, 0xD0, 0x00, 0x7A, 0x79, 0xFE, 0xD3];
    const GARBAGE: [u8; 3] = [0x00, 0x01, 0x02];
    let buf: &[u8] = match step % 3 {
        0 => &INCOMPLETE,
        1 => &FRAME_THEN_D3,
        _ => &GARBAGE,
    };
    let _ = next_msg_frame(buf);
    let mut it = MsgFrameIter::new(buf);
    let _ = (&mut it).next();
}

fn breach(prop: &str, clause: &str, detail: String) -> Violation {
    // a scanner contract breach is a C05 matter whichever check saw it; checks
    // for other properties report it under their own id only when it is theirs
    let _ = prop;
    Violation::new("C05", clause, detail)
}

/// one scanner call on `tail`; returns (consumed, delivered?)
fn scan_once(
    tail: &[u8],
    base: usize,
    have: usize,
    prop: &str,
    obs: &mut dyn Observer,
    out: &mut RoverOut,
) -> Result<(usize, bool), Violation> {
    let (c, f) = next_msg_frame(tail);
    out.scans += 1;
    obs.on_scan(tail, base, c, f.as_ref())?;
    if c > tail.len() {
        return Err(breach(prop, "C05.b", format!("consumed {} > buffer length {} at abs {}", c, tail.len(), base)));
    }
    let delivered = if let Some(f) = &f {
        let rs = rel_start(tail, f);
        out.deliveries.push(Delivery { off: base.wrapping_add(rs), len: f.frame_len(), have, attrs: frame_attrs(f) });
        true
    } else {
        false
    };
    Ok((c, delivered))
}

/// V1 drain loop
fn drive_v1(stream: &[u8], a: usize, bounds: &[usize], prop: &str, obs: &mut dyn Observer, out: &mut RoverOut) -> Result<usize, Violation> {
    let mut tail: Vec<u8> = Vec::new();
    let mut base = a;
    let mut have = a;
    for &end in bounds {
        obs.on_chunk(have, end - have);
        tail.extend_from_slice(&stream[have..end]);
        have = end;
        let mut guard = 0usize;
        loop {
            let (c, d) = scan_once(&tail, base, have, prop, obs, out)?;
            tail.drain(..c);
            base += c;
            if !d {
                break;
            }
            guard += 1;
            if guard > have - a + 2 {
                return Err(breach(prop, "C05.e", format!("drain loop does not terminate at abs {}", base)));
            }
        }
        if have % 3 == 0 {
            // "empty poll": the transport returned no new data and the caller scans the unchanged
            // tail again; judged like any other call (it must be idempotent)
            let (c, _d) = scan_once(&tail, base, have, prop, obs, out)?;
            tail.drain(..c);
            base += c;
        }
    }
    Ok(base - a)
}

/// V2 one scanner call per poll, drain after the last piece
fn drive_v2(stream: &[u8], a: usize, bounds: &[usize], prop: &str, obs: &mut dyn Observer, out: &mut RoverOut) -> Result<usize, Violation> {
    let mut tail: Vec<u8> = Vec::new();
    let mut base = a;
    let mut have = a;
    for &end in bounds {
        obs.on_chunk(have, end - have);
        tail.extend_from_slice(&stream[have..end]);
        have = end;
        decoy(out.scans as usize);
        let (c, _d) = scan_once(&tail, base, have, prop, obs, out)?;
        tail.drain(..c);
        base += c;
    }
    let mut guard = 0usize;
    loop {
        decoy(out.scans as usize);
        let (c, d) = scan_once(&tail, base, have, prop, obs, out)?;
        tail.drain(..c);
        base += c;
        if !d {
            break;
        }
        guard += 1;
        if guard > have - a + 2 {
            return Err(breach(prop, "C05.e", format!("final drain does not terminate at abs {}", base)));
        }
    }
    Ok(base - a)
}

/// V3 iterator
fn drive_v3(stream: &[u8], a: usize, bounds: &[usize], prop: &str, obs: &mut dyn Observer, out: &mut RoverOut) -> Result<usize, Violation> {
    let mut tail: Vec<u8> = Vec::new();
    let mut base = a;
    let mut have = a;
    for &end in bounds {
        obs.on_chunk(have, end - have);
        tail.extend_from_slice(&stream[have..end]);
        have = end;
        let mut frames: Vec<(usize, usize)> = Vec::new();
        let mut marks: Vec<usize> = Vec::new();
        let mut attrs: Vec<u64> = Vec::new();
        let mut nexts = 0usize;
        let c;
        {
            let mut it = MsgFrameIter::new(&tail);
            loop {
                nexts += 1;
                if nexts > tail.len() + 2 {
                    return Err(breach(prop, "C05.e", format!("iterator does not terminate within len+2 next() calls at abs {}", base)));
                }
                match (&mut it).next() {
                    Some(f) => {
                        let rs = rel_start(&tail, &f);
                        frames.push((rs, f.frame_len()));
                        attrs.push(frame_attrs(&f));
                        marks.push(it.consumed());
                    }
                    None => {
                        marks.push(it.consumed());
                        break;
                    }
                }
            }
            c = it.consumed();
            // polling the same iterator again after it returned None (no new data can have arrived:
            // it borrows the buffer) must stay None and must not move consumed(), exactly like a
            // repeated scanner call on an unchanged buffer
            for _ in 0..2 {
                let again = (&mut it).next().is_some();
                let c2 = it.consumed();
                if again || c2 != c {
                    return Err(breach(
                        prop,
                        "C05.e",
                        format!(
                            "iterator polled again after returning None over an unchanged buffer of {} bytes at abs {}: {} and consumed() moved from {} to {}",
                            tail.len(),
                            base,
                            if again { "it yielded another frame" } else { "it returned None" },
                            c,
                            c2
                        ),
                    ));
                }
            }
        }
        out.scans += nexts as u64;
        obs.on_iter(&tail, base, &frames, c, nexts)?;
        obs.on_iter_marks(&tail, base, &marks)?;
        if c > tail.len() {
            return Err(breach(prop, "C05.b", format!("iterator consumed {} > buffer length {} at abs {}", c, tail.len(), base)));
        }
        for (k, (rs, l)) in frames.iter().enumerate() {
            out.deliveries.push(Delivery { off: base.wrapping_add(*rs), len: *l, have, attrs: attrs.get(k).copied().unwrap_or(0) });
        }
        tail.drain(..c);
        base += c;
    }
    Ok(base - a)
}

/// V4 offset keeping: the buffer is never shifted
fn drive_v4(stream: &[u8], a: usize, bounds: &[usize], prop: &str, obs: &mut dyn Observer, out: &mut RoverOut) -> Result<usize, Violation> {
    let mut buf: Vec<u8> = Vec::new();
    let mut start = 0usize;
    let mut have = a;
    for &end in bounds {
        obs.on_chunk(have, end - have);
        buf.extend_from_slice(&stream[have..end]);
        have = end;
        let mut guard = 0usize;
        loop {
            decoy(out.scans as usize);
            let (c, d) = scan_once(&buf[start..], a + start, have, prop, obs, out)?;
            start += c;
            if !d {
                break;
            }
            guard += 1;
            if guard > have - a + 2 {
                return Err(breach(prop, "C05.e", format!("drain loop does not terminate at abs {}", a + start)));
            }
        }
    }
    Ok(start)
}

/// V5 datagram receiver: ONE fixed receive buffer, every piece is copied to its start and
/// scanned in place; what a piece leaves unconsumed is discarded (each datagram stands alone).
/// Not a streaming caller, so it is not part of the C06 comparison; the per-call oracles
/// (C03, C04, C05, C13) apply to each of its calls like to any other. Its point: successive
/// calls see the SAME address (and often the same length) with different contents.
fn drive_v5(stream: &[u8], a: usize, bounds: &[usize], prop: &str, obs: &mut dyn Observer, out: &mut RoverOut) -> Result<usize, Violation> {
    let mut cap = 0usize;
    let mut prev = a;
    for &end in bounds {
        cap = cap.max(end - prev);
        prev = end;
    }
    let mut buf: Vec<u8> = vec![0u8; cap.max(1)];
    let mut have = a;
    let mut total = 0usize;
    for &end in bounds {
        let n = end - have;
        obs.on_chunk(have, n);
        buf[..n].copy_from_slice(&stream[have..end]);
        let chunk_start = have;
        have = end;
        let mut pos = 0usize;
        let mut guard = 0usize;
        loop {
            let (c, d) = scan_once(&buf[pos..n], chunk_start + pos, have, prop, obs, out)?;
            pos += c;
            if !d {
                break;
            }
            guard += 1;
            if guard > n + 2 {
                return Err(breach(prop, "C05.e", format!("drain loop does not terminate at abs {}", chunk_start + pos)));
            }
        }
        total += pos;
    }
    Ok(total)
}

/// one-shot reference behaviour of C06: the real scanner applied repeatedly to
/// the whole of `seg` (no observer)
pub fn one_shot(seg: &[u8]) -> Result<(Vec<(usize, usize, u64)>, usize), Violation> {
    let mut frames = Vec::new();
    let mut base = 0usize;
    let mut guard = 0usize;
    loop {
        let (c, f) = next_msg_frame(&seg[base..]);
        if c > seg.len() - base {
            return Err(Violation::new("C05", "C05.b", format!("consumed {} > buffer length {}", c, seg.len() - base)));
        }
        let d = if let Some(f) = &f {
            let rs = rel_start(&seg[base..], f);
            frames.push((base.wrapping_add(rs), f.frame_len(), frame_attrs(f)));
            true
        } else {
            false
        };
        base += c;
        if !d {
            break;
        }
        guard += 1;
        if guard > seg.len() + 2 {
            return Err(Violation::new("C05", "C05.e", "one-shot drain does not terminate".into()));
        }
    }
    Ok((frames, base))
}
